#!/bin/bash
# Runs the repository's pinned test suite with the verif guard OFF and compares
# the passing tests with /root/.vp/BASELINE.json (stable_pass).
set -u
cd /repo || exit 2
out=$(mktemp)
go test -mod=mod -json -vet=off -count=1 -timeout 25m ./... > "$out" 2>/dev/null
python3 - "$out" <<'PY'
import json, sys
passed=set(); failed=set()
for line in open(sys.argv[1], errors='replace'):
    try: e=json.loads(line)
    except Exception: continue
    if e.get('Test') and e.get('Action') in ('pass','fail'):
        (passed if e['Action']=='pass' else failed).add(e['Package']+'::'+e['Test'])
try:
    base=set(json.load(open('/root/.vp/BASELINE.json'))['stable_pass'])
except Exception:
    base=set()
missing=sorted(base-passed)
print('passed=%d failed=%d baseline=%d missing_from_baseline=%d' % (len(passed),len(failed),len(base),len(missing)))
for m in missing[:20]: print('MISSING', m)
sys.exit(0 if not missing and not failed else 1)
PY
rc=$?
rm -f "$out"
exit $rc
