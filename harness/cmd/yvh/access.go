package main

import (
	"bufio"
	"bytes"
	"context"
	"crypto/rand"
	"encoding/binary"
	"encoding/hex"
	"encoding/json"
	"flag"
	"fmt"
	"io"
	"log"
	"net/http"
	"os"
	"reflect"
	"sort"
	"strings"
	gotime "time"
	"unsafe"

	"connectrpc.com/connect"
	"github.com/hashicorp/go-memdb"
	"google.golang.org/protobuf/proto"
	"google.golang.org/protobuf/reflect/protoreflect"
	"google.golang.org/protobuf/types/dynamicpb"
	"google.golang.org/protobuf/types/known/wrapperspb"

	"github.com/yorkie-team/yorkie/api/converter"
	"github.com/yorkie-team/yorkie/api/types"
	api "github.com/yorkie-team/yorkie/api/yorkie/v1"
	"github.com/yorkie-team/yorkie/api/yorkie/v1/v1connect"
	"github.com/yorkie-team/yorkie/pkg/document"
	yjson "github.com/yorkie-team/yorkie/pkg/document/json"
	"github.com/yorkie-team/yorkie/pkg/document/presence"
	"github.com/yorkie-team/yorkie/pkg/document/time"
	"github.com/yorkie-team/yorkie/pkg/key"
	"github.com/yorkie-team/yorkie/server/backend/database/memory"

	"verif/harness/world"
)

// Property C13: the access matrix. Access.tla enumerates the cells
// (procedure x credential x own/foreign assignment of every identifying field)
// from the procedure list this driver derives from the generated service
// descriptors; this driver executes each cell against a real server that hosts
// an attacker project A and a victim project B, and logs the outcome, whether a
// marker of B appeared in the response, and a digest of every stored row of B
// before and after. AccessTrace.tla decides.

func init() { extraCmds["access"] = cmdAccess }

const marker = "SECRET-B"

// ---------------------------------------------------------------------------
// Procedure list from the descriptors.

type procInfo struct {
	Svc     string   `json:"svc"`
	Proc    string   `json:"proc"`
	Path    string   `json:"path"`
	Stream  bool     `json:"stream"`
	Slots   []string `json:"slots"`
	Unknown []string `json:"unknown"`
	in      protoreflect.MessageDescriptor
	out     protoreflect.MessageDescriptor
}

// roleOf classifies a top-level request field as an identifying slot.
func roleOf(svc, msg, field string) string {
	switch field {
	case "client_id":
		return "client"
	case "document_id":
		return "doc"
	case "revision_id":
		return "rev"
	case "project_name":
		return "pname"
	case "project_id":
		return "pid"
	case "document_key", "document_keys":
		return "dkey"
	case "channel_key", "channel_keys":
		return "ckey"
	case "session_id":
		return "sess"
	case "schema_name", "schema_key":
		return "sname"
	case "username":
		return "uname"
	case "project":
		return "pid"
	case "name":
		if msg == "GetProjectRequest" {
			return "pname"
		}
	case "id":
		if msg == "UpdateProjectRequest" || msg == "RotateProjectKeysRequest" {
			return "pid"
		}
	}
	return ""
}

// fields that carry no identity (so that an unknown id-like field is reported)
var plainFields = map[string]bool{"client_key": true, "previous_id": true, "name": true, "id": true, "key": true}

func listProcs() []*procInfo {
	var out []*procInfo
	files := []struct {
		svc string
		fd  protoreflect.FileDescriptor
	}{
		{"yorkie", api.File_yorkie_v1_yorkie_proto},
		{"admin", api.File_yorkie_v1_admin_proto},
		{"cluster", api.File_yorkie_v1_cluster_proto},
	}
	for _, f := range files {
		svcs := f.fd.Services()
		for i := 0; i < svcs.Len(); i++ {
			sd := svcs.Get(i)
			ms := sd.Methods()
			for j := 0; j < ms.Len(); j++ {
				m := ms.Get(j)
				p := &procInfo{Svc: f.svc, Proc: string(m.Name()),
					Path:   "/" + string(sd.FullName()) + "/" + string(m.Name()),
					Stream: m.IsStreamingServer() || m.IsStreamingClient(), in: m.Input(), out: m.Output(),
					Slots: []string{}, Unknown: []string{}}
				seen := map[string]bool{}
				fs := m.Input().Fields()
				for k := 0; k < fs.Len(); k++ {
					fd := fs.Get(k)
					name := string(fd.Name())
					r := roleOf(f.svc, string(m.Input().Name()), name)
					if r != "" {
						if !seen[r] {
							seen[r] = true
							p.Slots = append(p.Slots, r)
						}
						continue
					}
					if !plainFields[name] && (strings.HasSuffix(name, "_id") || strings.HasSuffix(name, "_key") ||
						strings.HasSuffix(name, "_name") || strings.HasSuffix(name, "_keys") || strings.HasSuffix(name, "_ids")) {
						p.Unknown = append(p.Unknown, name)
					}
				}
				sort.Strings(p.Slots)
				out = append(out, p)
			}
		}
	}
	return out
}

// ---------------------------------------------------------------------------
// Raw Connect-protocol calls (binary protobuf bodies, so that a marker inside a
// nested bytes field is still visible in the response).

type callResult struct {
	Code string
	Body []byte
	Msg  string
}

func doCall(addr string, p *procInfo, hdr map[string]string, req proto.Message) callResult {
	body, err := proto.Marshal(req)
	if err != nil {
		return callResult{Code: "harness_marshal", Msg: err.Error()}
	}
	url := "http://" + addr + p.Path
	if !p.Stream {
		hr, _ := http.NewRequest("POST", url, bytes.NewReader(body))
		hr.Header.Set("Content-Type", "application/proto")
		hr.Header.Set("Connect-Protocol-Version", "1")
		for k, v := range hdr {
			hr.Header.Set(k, v)
		}
		ctx, cancel := context.WithTimeout(context.Background(), 10*gotime.Second)
		defer cancel()
		res, err := http.DefaultClient.Do(hr.WithContext(ctx))
		if err != nil {
			return callResult{Code: "transport", Msg: err.Error()}
		}
		defer func() { _ = res.Body.Close() }()
		b, _ := io.ReadAll(res.Body)
		if res.StatusCode == 200 {
			return callResult{Code: "ok", Body: b}
		}
		var e struct {
			Code    string `json:"code"`
			Message string `json:"message"`
		}
		if json.Unmarshal(b, &e) == nil && e.Code != "" {
			return callResult{Code: e.Code, Body: b, Msg: e.Message}
		}
		return callResult{Code: fmt.Sprintf("http_%d", res.StatusCode), Body: b}
	}
	// server stream: enveloped request, read the first envelope
	env := make([]byte, 5+len(body))
	binary.BigEndian.PutUint32(env[1:5], uint32(len(body)))
	copy(env[5:], body)
	hr, _ := http.NewRequest("POST", url, bytes.NewReader(env))
	hr.Header.Set("Content-Type", "application/connect+proto")
	hr.Header.Set("Connect-Protocol-Version", "1")
	for k, v := range hdr {
		hr.Header.Set(k, v)
	}
	ctx, cancel := context.WithTimeout(context.Background(), 1500*gotime.Millisecond)
	defer cancel()
	res, err := http.DefaultClient.Do(hr.WithContext(ctx))
	if err != nil {
		if ctx.Err() != nil {
			return callResult{Code: "ok", Msg: "stream open, no message"}
		}
		return callResult{Code: "transport", Msg: err.Error()}
	}
	defer func() { _ = res.Body.Close() }()
	if res.StatusCode != 200 {
		b, _ := io.ReadAll(res.Body)
		var e struct {
			Code string `json:"code"`
		}
		if json.Unmarshal(b, &e) == nil && e.Code != "" {
			return callResult{Code: e.Code, Body: b}
		}
		return callResult{Code: fmt.Sprintf("http_%d", res.StatusCode), Body: b}
	}
	head := make([]byte, 5)
	if _, err := io.ReadFull(res.Body, head); err != nil {
		if ctx.Err() != nil {
			return callResult{Code: "ok", Msg: "stream open, no message"}
		}
		return callResult{Code: "transport", Msg: err.Error()}
	}
	n := binary.BigEndian.Uint32(head[1:5])
	msg := make([]byte, n)
	if _, err := io.ReadFull(res.Body, msg); err != nil {
		return callResult{Code: "transport", Msg: err.Error()}
	}
	if head[0]&2 != 0 { // end of stream
		var e struct {
			Error *struct {
				Code    string `json:"code"`
				Message string `json:"message"`
			} `json:"error"`
		}
		if json.Unmarshal(msg, &e) == nil && e.Error != nil {
			return callResult{Code: e.Error.Code, Body: msg, Msg: e.Error.Message}
		}
		return callResult{Code: "ok", Body: msg, Msg: "stream ended"}
	}
	return callResult{Code: "ok", Body: msg}
}

// ---------------------------------------------------------------------------
// The two-project world.

type party struct {
	OldPublic, OldSecret string // the project's keys before they were rotated (revoked)
	User, Pass, Token    string
	Project           *api.Project
	Client            string // client id
	ClientKey         string
	Doc               string // id of document "shared"
	Rev               string
	Sess              string
}

type accessWorld struct {
	srv   *world.Server
	admin v1connect.AdminServiceClient
	a, b  *party
	n     int
}

func must[T any](v T, err error) T {
	if err != nil {
		fatal(2, "access setup: %v", err)
	}
	return v
}

func hdrInterceptor(h map[string]string) connect.Interceptor {
	return connect.UnaryInterceptorFunc(func(next connect.UnaryFunc) connect.UnaryFunc {
		return func(ctx context.Context, req connect.AnyRequest) (connect.AnyResponse, error) {
			for k, v := range h {
				req.Header().Set(k, v)
			}
			return next(ctx, req)
		}
	})
}

func (w *accessWorld) yorkie(pubKey string) v1connect.YorkieServiceClient {
	return v1connect.NewYorkieServiceClient(http.DefaultClient, "http://"+w.srv.Addr,
		connect.WithInterceptors(hdrInterceptor(map[string]string{types.APIKeyKey: pubKey})))
}

func (w *accessWorld) adminWith(h map[string]string) v1connect.AdminServiceClient {
	return v1connect.NewAdminServiceClient(http.DefaultClient, "http://"+w.srv.Addr,
		connect.WithInterceptors(hdrInterceptor(h)))
}

// packFor builds a change pack for document key k by the given actor with one
// change that sets root.<field> = text.
func packFor(k, actor, field, text string) *api.ChangePack {
	doc := document.New(key.Key(k))
	if actor != "" {
		if id, err := time.ActorIDFromHex(actor); err == nil {
			doc.SetActor(id)
		}
	}
	_ = doc.Update(func(r *yjson.Object, p *presence.Presence) error {
		r.SetString(field, text)
		return nil
	})
	pb, err := converter.ToChangePack(doc.CreateChangePack())
	if err != nil {
		fatal(2, "pack: %v", err)
	}
	return pb
}

func (w *accessWorld) newUser(name string) *party {
	ctx := context.Background()
	p := &party{User: name, Pass: "Passw0rd!" + name}
	must(w.admin.SignUp(ctx, connect.NewRequest(&api.SignUpRequest{Username: p.User, Password: p.Pass})))
	res := must(w.admin.LogIn(ctx, connect.NewRequest(&api.LogInRequest{Username: p.User, Password: p.Pass})))
	p.Token = res.Msg.Token
	return p
}

// provision gives the party a fresh client with document "shared" attached
// (content text), one revision and one channel session on "room".
func (w *accessWorld) provision(p *party, text, revLabel, clientKey string, extra bool) {
	ctx := context.Background()
	y := w.yorkie(p.Project.PublicKey)
	w.n++
	p.ClientKey = fmt.Sprintf("%s-%d", clientKey, w.n)
	act := must(y.ActivateClient(ctx, connect.NewRequest(&api.ActivateClientRequest{ClientKey: p.ClientKey})))
	p.Client = act.Msg.ClientId
	att := must(y.AttachDocument(ctx, connect.NewRequest(&api.AttachDocumentRequest{
		ClientId: p.Client, ChangePack: packFor("shared", p.Client, fmt.Sprintf("f%d", w.n), text)})))
	p.Doc = att.Msg.DocumentId
	rev := must(y.CreateRevision(ctx, connect.NewRequest(&api.CreateRevisionRequest{
		ClientId: p.Client, DocumentId: p.Doc, Label: fmt.Sprintf("%s-%d", revLabel, w.n), Description: text})))
	p.Rev = rev.Msg.Revision.Id
	ch := must(y.AttachChannel(ctx, connect.NewRequest(&api.AttachChannelRequest{ClientId: p.Client, ChannelKey: "room"})))
	p.Sess = ch.Msg.SessionId
	if extra {
		must(y.AttachDocument(ctx, connect.NewRequest(&api.AttachDocumentRequest{
			ClientId: p.Client, ChangePack: packFor("only-b", p.Client, "x", text)})))
		must(y.AttachChannel(ctx, connect.NewRequest(&api.AttachChannelRequest{ClientId: p.Client, ChannelKey: "room-b"})))
	}
}

func newAccessWorld(noDefault bool) *accessWorld {
	srv, err := world.StartServer(world.ServerOpts{ClusterSecret: "cluster-secret", ChannelTTL: "1h", NoDefaultProject: noDefault})
	if err != nil {
		fatal(2, "server: %v", err)
	}
	w := &accessWorld{srv: srv}
	w.admin = v1connect.NewAdminServiceClient(http.DefaultClient, "http://"+srv.Addr)
	ctx := context.Background()
	w.a, w.b = w.newUser("usera"), w.newUser("userb")
	for _, p := range []*party{w.a, w.b} {
		ad := w.adminWith(map[string]string{types.AuthorizationKey: "Bearer " + p.Token})
		res := must(ad.CreateProject(ctx, connect.NewRequest(&api.CreateProjectRequest{Name: "proj-" + p.User})))
		p.Project = res.Msg.Project
		// channel sessions of a project expire after its own TTL (default 15 s): keep the
		// victim's (and the attacker's) sessions alive for the whole run (5m is the largest value the server accepts)
		up := must(ad.UpdateProject(ctx, connect.NewRequest(&api.UpdateProjectRequest{Id: p.Project.Id,
			Fields: &api.UpdatableProjectFields{ChannelSessionTtl: wrapperspb.String("5m")}})))
		p.Project = up.Msg.Project
	}
	// A's first keys are used once (whatever the server remembers about them is warm) and then rotated away
	w.provision(w.a, "PUBLIC-A", "rev-a", "client-a", false)
	w.a.OldPublic, w.a.OldSecret = w.a.Project.PublicKey, w.a.Project.SecretKey
	{
		ad := w.adminWith(map[string]string{types.AuthorizationKey: "Bearer " + w.a.Token})
		rot := must(ad.RotateProjectKeys(ctx, connect.NewRequest(&api.RotateProjectKeysRequest{Id: w.a.Project.Id})))
		w.a.Project = rot.Msg.Project
		if w.a.Project.PublicKey == w.a.OldPublic {
			fatal(2, "access setup: keys were not rotated")
		}
	}
	w.provision(w.b, marker+"-content", marker+"-rev", marker+"-client", true)
	// a schema in each project, one only in B
	for _, s := range []struct {
		p    *party
		name string
	}{{w.a, "sch"}, {w.b, "sch"}, {w.b, "schb"}} {
		ad := w.adminWith(map[string]string{types.AuthorizationKey: "API-Key " + s.p.Project.SecretKey})
		_, _ = ad.CreateSchema(ctx, connect.NewRequest(&api.CreateSchemaRequest{
			SchemaName: s.name, SchemaVersion: 1, SchemaBody: "type Document = {};"}))
	}
	return w
}

// ---------------------------------------------------------------------------
// Digest of every stored row of the victim.

func memdbOf(srv *world.Server) *memdb.MemDB {
	db, ok := srv.Be.DB.(*memory.DB)
	if !ok {
		fatal(2, "not a memory DB")
	}
	f := reflect.ValueOf(db).Elem().FieldByName("db")
	return *(**memdb.MemDB)(unsafe.Pointer(f.UnsafeAddr()))
}

var tables = []string{"users", "projects", "members", "invites", "clients", "documents", "schemas",
	"changes", "snapshots", "versionvectors", "snapshot_bodies", "revisions"}

func dump(b *strings.Builder, v reflect.Value, depth int) {
	if depth > 12 {
		b.WriteString("...")
		return
	}
	switch v.Kind() {
	case reflect.Ptr, reflect.Interface:
		if v.IsNil() {
			b.WriteString("nil")
			return
		}
		dump(b, v.Elem(), depth+1)
	case reflect.Struct:
		if v.Type() == reflect.TypeOf(gotime.Time{}) && v.CanInterface() {
			b.WriteString(v.Interface().(gotime.Time).UTC().Format(gotime.RFC3339Nano))
			return
		}
		b.WriteString("{")
		for i := 0; i < v.NumField(); i++ {
			b.WriteString(v.Type().Field(i).Name + ":")
			dump(b, v.Field(i), depth+1)
			b.WriteString(" ")
		}
		b.WriteString("}")
	case reflect.Map:
		var ks []string
		m := map[string]reflect.Value{}
		for _, k := range v.MapKeys() {
			var kb strings.Builder
			dump(&kb, k, depth+1)
			ks = append(ks, kb.String())
			m[kb.String()] = v.MapIndex(k)
		}
		sort.Strings(ks)
		b.WriteString("map[")
		for _, k := range ks {
			b.WriteString(k + ":")
			dump(b, m[k], depth+1)
			b.WriteString(" ")
		}
		b.WriteString("]")
	case reflect.Slice, reflect.Array:
		if v.Kind() == reflect.Slice && v.Type().Elem().Kind() == reflect.Uint8 {
			b.WriteString(hex.EncodeToString(v.Bytes()))
			return
		}
		b.WriteString("[")
		for i := 0; i < v.Len(); i++ {
			dump(b, v.Index(i), depth+1)
			b.WriteString(" ")
		}
		b.WriteString("]")
	case reflect.String:
		b.WriteString(fmt.Sprintf("%q", v.String()))
	case reflect.Bool:
		b.WriteString(fmt.Sprint(v.Bool()))
	case reflect.Int, reflect.Int8, reflect.Int16, reflect.Int32, reflect.Int64:
		b.WriteString(fmt.Sprint(v.Int()))
	case reflect.Uint, reflect.Uint8, reflect.Uint16, reflect.Uint32, reflect.Uint64:
		b.WriteString(fmt.Sprint(v.Uint()))
	case reflect.Float32, reflect.Float64:
		b.WriteString(fmt.Sprint(v.Float()))
	default:
		b.WriteString("?" + v.Kind().String())
	}
}

func strField(v reflect.Value, name string) (string, bool) {
	for v.Kind() == reflect.Ptr {
		v = v.Elem()
	}
	if v.Kind() != reflect.Struct {
		return "", false
	}
	f := v.FieldByName(name)
	if !f.IsValid() || f.Kind() != reflect.String {
		return "", false
	}
	return f.String(), true
}

// victimRows returns table -> sorted dump of each row that belongs to party p.
func (w *accessWorld) victimRows(p *party) map[string][]string {
	out := map[string][]string{}
	txn := memdbOf(w.srv).Txn(false)
	defer txn.Abort()
	userID := ""
	if it, err := txn.Get("users", "id"); err == nil {
		for raw := it.Next(); raw != nil; raw = it.Next() {
			if n, _ := strField(reflect.ValueOf(raw), "Username"); n == p.User {
				userID, _ = strField(reflect.ValueOf(raw), "ID")
			}
		}
	}
	for _, t := range tables {
		it, err := txn.Get(t, "id")
		if err != nil {
			fatal(2, "table %s: %v", t, err)
		}
		for raw := it.Next(); raw != nil; raw = it.Next() {
			v := reflect.ValueOf(raw)
			mine := false
			if pid, ok := strField(v, "ProjectID"); ok && pid == p.Project.Id {
				mine = true
			}
			if id, ok := strField(v, "ID"); ok && ((t == "projects" && id == p.Project.Id) || (t == "users" && id == userID)) {
				mine = true
			}
			if uid, ok := strField(v, "UserID"); ok && t == "members" && uid == userID {
				mine = true
			}
			if !mine {
				continue
			}
			var b strings.Builder
			dump(&b, v, 0)
			out[t] = append(out[t], b.String())
		}
		sort.Strings(out[t])
	}
	// in-memory channel sessions
	for _, ck := range []string{"room", "room-b"} {
		n := w.srv.Be.Channel.SessionCount(types.ChannelRefKey{ProjectID: types.ID(p.Project.Id), ChannelKey: key.Key(ck)}, false)
		out["channel"] = append(out["channel"], fmt.Sprintf("%s=%d", ck, n))
	}
	return out
}

func diffRows(a, b map[string][]string) []string {
	d := []string{}
	for _, t := range append(append([]string{}, tables...), "channel") {
		if strings.Join(a[t], "\n") != strings.Join(b[t], "\n") {
			d = append(d, t)
		}
	}
	return d
}

// ---------------------------------------------------------------------------
// Request construction.

func ghostID() string {
	b := make([]byte, 12)
	_, _ = rand.Read(b)
	return hex.EncodeToString(b)
}

type values map[string]string // role -> value

func (w *accessWorld) valuesFor(kind string) values {
	switch kind {
	case "own":
		return values{"client": w.a.Client, "doc": w.a.Doc, "rev": w.a.Rev, "pname": w.a.Project.Name,
			"pid": w.a.Project.Id, "dkey": "shared", "ckey": "room", "sess": w.a.Sess, "sname": "sch", "uname": w.a.User}
	case "foreign":
		return values{"client": w.b.Client, "doc": w.b.Doc, "rev": w.b.Rev, "pname": w.b.Project.Name,
			"pid": w.b.Project.Id, "dkey": "only-b", "ckey": "room-b", "sess": w.b.Sess, "sname": "schb", "uname": w.b.User}
	}
	w.n++
	return values{"client": ghostID(), "doc": ghostID(), "rev": ghostID(), "pname": "proj-ghost",
		"pid": ghostID(), "dkey": "only-ghost", "ckey": "room-ghost", "sess": ghostID(), "sname": "schghost",
		"uname": fmt.Sprintf("userghost%d", w.n)}
}

// build fills a request: slot fields from pick(role), everything else with a
// plausible value.
func (w *accessWorld) build(p *procInfo, pick func(role string) string) proto.Message {
	msg := dynamicpb.NewMessage(p.in)
	fs := p.in.Fields()
	mname := string(p.in.Name())
	for i := 0; i < fs.Len(); i++ {
		fd := fs.Get(i)
		name := string(fd.Name())
		role := roleOf(p.Svc, mname, name)
		switch {
		case role != "" && fd.Kind() == protoreflect.StringKind && fd.IsList():
			msg.Mutable(fd).List().Append(protoreflect.ValueOfString(pick(role)))
		case role != "" && fd.Kind() == protoreflect.StringKind:
			v := pick(role)
			if name == "schema_key" {
				v += "@1"
			}
			msg.Set(fd, protoreflect.ValueOfString(v))
		case role == "pid" && fd.Kind() == protoreflect.MessageKind: // cluster: project message
			pr := &api.Project{Id: pick("pid"), Name: "p"}
			b, _ := proto.Marshal(pr)
			sub := dynamicpb.NewMessage(fd.Message())
			_ = proto.Unmarshal(b, sub)
			msg.Set(fd, protoreflect.ValueOfMessage(sub))
		case name == "change_pack":
			dk := pick("dkey")
			if p.Svc == "yorkie" {
				dk = "shared" // the document is named by document_id; the pack carries the key
				if mname == "AttachDocumentRequest" {
					w.n++
					dk = fmt.Sprintf("fresh-%d", w.n) // the client has "shared" attached already
				}
			}
			pack := packFor(dk, pick("client"), "pwn", "PWNED")
			b, _ := proto.Marshal(pack)
			sub := dynamicpb.NewMessage(fd.Message())
			_ = proto.Unmarshal(b, sub)
			msg.Set(fd, protoreflect.ValueOfMessage(sub))
		case name == "fields" && fd.Kind() == protoreflect.MessageKind:
			w.n++
			f := &api.UpdatableProjectFields{}
			b, _ := proto.Marshal(f)
			sub := dynamicpb.NewMessage(fd.Message())
			_ = proto.Unmarshal(b, sub)
			if nf := fd.Message().Fields().ByName("name"); nf != nil && nf.Kind() == protoreflect.MessageKind {
				wv := dynamicpb.NewMessage(nf.Message())
				wv.Set(nf.Message().Fields().ByName("value"), protoreflect.ValueOfString(fmt.Sprintf("renamed-%d", w.n)))
				sub.Set(nf, protoreflect.ValueOfMessage(wv))
			}
			msg.Set(fd, protoreflect.ValueOfMessage(sub))
		case fd.IsList() || fd.IsMap() || fd.Kind() == protoreflect.MessageKind:
			// left empty
		case fd.Kind() == protoreflect.StringKind:
			v := "x"
			switch name {
			case "client_key":
				w.n++
				v = fmt.Sprintf("probe-%d", w.n)
			case "password", "current_password":
				v = "Wrong-pass1!"
			case "new_password":
				v = "New-pass1!x"
			case "name":
				w.n++
				v = fmt.Sprintf("probe-proj-%d", w.n)
			case "role":
				v = "member"
			case "label":
				v = "probe"
			case "topic":
				v = "t"
			case "root", "initial_root":
				v = `{"pwn":"PWNED"}`
			case "schema_body":
				v = "type Document = {};"
			case "query":
				v = "s"
			case "token", "previous_id":
				v = ""
			}
			if v != "" {
				msg.Set(fd, protoreflect.ValueOfString(v))
			}
		case fd.Kind() == protoreflect.BytesKind:
			msg.Set(fd, protoreflect.ValueOfBytes([]byte("payload")))
		case fd.Kind() == protoreflect.Int32Kind:
			v := int32(10)
			if name == "schema_version" || name == "version" {
				v = 1
			}
			if name == "offset" {
				v = 0
			}
			msg.Set(fd, protoreflect.ValueOfInt32(v))
		case fd.Kind() == protoreflect.Int64Kind:
			msg.Set(fd, protoreflect.ValueOfInt64(0))
		case fd.Kind() == protoreflect.BoolKind:
			if name == "include_root" || name == "include_presences" || name == "is_forward" || name == "force" {
				msg.Set(fd, protoreflect.ValueOfBool(true))
			}
		}
	}
	return msg
}

func (w *accessWorld) headers(svc, cred string) map[string]string {
	h := map[string]string{}
	switch svc {
	case "yorkie":
		switch cred {
		case "bogus":
			h[types.APIKeyKey] = "not-a-real-key"
		case "keyA":
			h[types.APIKeyKey] = w.a.Project.PublicKey
		case "revokedA":
			h[types.APIKeyKey] = w.a.OldPublic
		}
	case "admin":
		switch cred {
		case "bogus":
			h[types.AuthorizationKey] = "Bearer not.a.token"
		case "tokenA":
			h[types.AuthorizationKey] = "Bearer " + w.a.Token
		case "secretA":
			h[types.AuthorizationKey] = "API-Key " + w.a.Project.SecretKey
		case "revokedSecretA":
			h[types.AuthorizationKey] = "API-Key " + w.a.OldSecret
		case "pubkeyB": // a public key is not an admin credential
			h[types.AuthorizationKey] = "API-Key " + w.b.Project.PublicKey
		}
	case "cluster":
		switch cred {
		case "bogus":
			h["x-cluster-secret"] = "wrong-secret"
		case "secret":
			h["x-cluster-secret"] = "cluster-secret"
		}
	}
	return h
}

func leaks(w *accessWorld, body []byte) bool {
	return bytes.Contains(body, []byte(marker)) ||
		bytes.Contains(body, []byte(w.b.Project.SecretKey)) ||
		(w.b.Project.PublicKey != "" && bytes.Contains(body, []byte(w.b.Project.PublicKey)))
}

// ---------------------------------------------------------------------------

type cell struct {
	Svc  string            `json:"svc"`
	Proc string            `json:"proc"`
	Cred string            `json:"cred"`
	Asg  asgMap `json:"asg"`
}

// asgMap tolerates TLC's rendering of the empty function as [].
type asgMap map[string]string

func (a *asgMap) UnmarshalJSON(b []byte) error {
	*a = asgMap{}
	if len(b) > 0 && b[0] == '[' {
		return nil
	}
	m := map[string]string{}
	if err := json.Unmarshal(b, &m); err != nil {
		return err
	}
	*a = m
	return nil
}

func cmdAccess(args []string) {
	fs := flag.NewFlagSet("access", flag.ExitOnError)
	list := fs.Bool("list", false, "print the procedure list derived from the service descriptors")
	in := fs.String("in", "", "cells ndjson (from Access.tla)")
	out := fs.String("out", "", "trace ndjson")
	noDefault := fs.Bool("no-default-project", false, "server config UseDefaultProject=false")
	_ = fs.Parse(args)

	procs := listProcs()
	if *list {
		enc := json.NewEncoder(os.Stdout)
		for _, p := range procs {
			_ = enc.Encode(p)
		}
		return
	}
	byName := map[string]*procInfo{}
	for _, p := range procs {
		byName[p.Svc+"/"+p.Proc] = p
	}
	f, err := os.Open(*in)
	if err != nil {
		fatal(2, "open: %v", err)
	}
	defer func() { _ = f.Close() }()
	of, err := os.Create(*out)
	if err != nil {
		fatal(2, "create: %v", err)
	}
	bw := bufio.NewWriter(of)
	enc := json.NewEncoder(bw)

	w := newAccessWorld(*noDefault)
	defer w.srv.Stop()
	log.SetOutput(io.Discard) // net/http reports recovered handler panics here

	sc := bufio.NewScanner(f)
	sc.Buffer(make([]byte, 1<<20), 1<<26)
	n := 0
	for sc.Scan() {
		var c cell
		if err := json.Unmarshal(sc.Bytes(), &c); err != nil {
			fatal(2, "cell: %v", err)
		}
		p := byName[c.Svc+"/"+c.Proc]
		if p == nil {
			fatal(2, "unknown procedure %s/%s", c.Svc, c.Proc)
		}
		n++
		// fresh attacker resources for every cell (a control call may consume them)
		w.refreshAttacker()
		own, foreign, ghost := w.valuesFor("own"), w.valuesFor("foreign"), w.valuesFor("ghost")
		anyForeign := false
		for _, k := range c.Asg {
			if k == "foreign" {
				anyForeign = true
			}
		}
		hdr := w.headers(c.Svc, c.Cred)
		before := w.victimRows(w.b)
		req := w.build(p, func(role string) string {
			if c.Asg[role] == "foreign" {
				return foreign[role]
			}
			return own[role]
		})
		r := doCall(w.srv.Addr, p, hdr, req)
		after := w.victimRows(w.b)
		line := map[string]any{"ev": "Call", "n": n, "svc": c.Svc, "proc": c.Proc, "cred": c.Cred, "asg": c.Asg,
			"foreign": anyForeign, "nodefault": *noDefault, "code": r.Code, "leak": leaks(w, r.Body), "changed": diffRows(before, after),
			"msg": trunc(r.Msg, 120), "twin": false, "gcode": "", "gleak": false, "gchanged": []string{}}
		if anyForeign {
			// the twin: the same call with every foreign value replaced by one that exists nowhere
			w.refreshAttacker()
			own = w.valuesFor("own")
			req2 := w.build(p, func(role string) string {
				if c.Asg[role] == "foreign" {
					return ghost[role]
				}
				return own[role]
			})
			r2 := doCall(w.srv.Addr, p, hdr, req2)
			after2 := w.victimRows(w.b)
			line["twin"], line["gcode"], line["gleak"] = true, r2.Code, leaks(w, r2.Body)
			line["gchanged"] = diffRows(after, after2)
		}
		_ = enc.Encode(line)
		if len(line["changed"].([]string)) > 0 || len(line["gchanged"].([]string)) > 0 {
			// the victim fixture was damaged: give B fresh resources so that the
			// remaining cells still probe something that exists
			w.provision(w.b, marker+"-content", marker+"-rev", marker+"-client", true)
		}
	}
	// identical keys are different documents: A's "shared" never shows B's content
	ctx := context.Background()
	ad := w.adminWith(map[string]string{types.AuthorizationKey: "API-Key " + w.a.Project.SecretKey})
	res, err := ad.GetDocuments(ctx, connect.NewRequest(&api.GetDocumentsRequest{DocumentKeys: []string{"shared", "only-b"}, IncludeRoot: true}))
	same := map[string]any{"ev": "SameKey", "n": n + 1, "err": fmt.Sprint(err), "leak": false, "count": 0, "distinct": w.a.Doc != w.b.Doc}
	if err == nil {
		b, _ := proto.Marshal(res.Msg)
		same["leak"], same["count"] = leaks(w, b), len(res.Msg.Documents)
	}
	_ = enc.Encode(same)
	_ = bw.Flush()
	_ = of.Close()
	fmt.Printf("access: cells=%d\n", n)
}

// refreshAttacker re-provisions A when its client was consumed; cheap enough
// to do for every cell.
func (w *accessWorld) refreshAttacker() {
	// a control call may have renamed A's project or rotated its keys
	ad := w.adminWith(map[string]string{types.AuthorizationKey: "Bearer " + w.a.Token})
	res := must(ad.ListProjects(context.Background(), connect.NewRequest(&api.ListProjectsRequest{})))
	for _, p := range res.Msg.Projects {
		if p.Id == w.a.Project.Id {
			w.a.Project = p
		}
	}
	w.provision(w.a, "PUBLIC-A", "rev-a", "client-a", false)
}

func trunc(s string, n int) string {
	if len(s) > n {
		return s[:n]
	}
	return s
}
