package main

import (
	"bufio"
	"encoding/json"
	"flag"
	"fmt"
	"os"

	"github.com/yorkie-team/yorkie/server/backend/database"
	"github.com/yorkie-team/yorkie/server/backend/database/mongo"
)

func init() { extraCmds["cstore"] = cmdCStore }

type csOp struct {
	Op  string  `json:"op"`
	K   int64   `json:"k"`
	Ops []int64 `json:"ops"`
	F   int64   `json:"f"`
	T   int64   `json:"t"`
}

// cmdCStore replays behaviours of ChangeStore.tla on the real mongo.ChangeStore
// (which needs no MongoDB) composed as mongo/client.go composes it, and records
// every call with its fetcher invocations and result.
func cmdCStore(args []string) {
	fs := flag.NewFlagSet("cstore", flag.ExitOnError)
	in := fs.String("in", "", "behaviours ndjson (each a list of ops)")
	out := fs.String("out", "", "trace ndjson")
	_ = fs.Parse(args)
	f, err := os.Open(*in)
	if err != nil {
		fatal(2, "open: %v", err)
	}
	defer func() { _ = f.Close() }()
	o, err := os.Create(*out)
	if err != nil {
		fatal(2, "create: %v", err)
	}
	w := bufio.NewWriter(o)
	emit := func(m map[string]any) {
		b, _ := json.Marshal(m)
		_, _ = w.Write(b)
		_ = w.WriteByte('\n')
	}
	sc := bufio.NewScanner(f)
	sc.Buffer(make([]byte, 1<<20), 1<<26)
	run := 0
	for sc.Scan() {
		if len(sc.Bytes()) == 0 {
			continue
		}
		var ops []csOp
		if err := json.Unmarshal(sc.Bytes(), &ops); err != nil {
			fatal(2, "behaviour: %v", err)
		}
		run++
		emit(map[string]any{"op": "reset", "run": run})
		db := map[int64]*database.ChangeInfo{} // the collection: operation-carrying changes only
		var head int64
		store := mongo.NewChangeStore()
		for _, op := range ops {
			switch op.Op {
			case "push":
				var opChanges []*database.ChangeInfo
				for _, s := range op.Ops {
					ci := &database.ChangeInfo{ServerSeq: s, Operations: [][]byte{{1}}}
					db[s] = ci
					opChanges = append(opChanges, ci)
				}
				store.ReplaceOrInsert(opChanges)
				store.ExpandRange(mongo.ChangeRange{From: head + 1, To: head + op.K})
				head += op.K
				emit(map[string]any{"op": "push", "run": run, "k": op.K, "ops": nz(op.Ops)})
			case "find":
				fetched := [][]int64{}
				err := store.EnsureChanges(op.F, op.T, func(from, to int64) ([]*database.ChangeInfo, error) {
					fetched = append(fetched, []int64{from, to})
					var res []*database.ChangeInfo
					for s := from; s <= to; s++ {
						if ci, ok := db[s]; ok {
							res = append(res, ci)
						}
					}
					return res, nil
				})
				result := []int64{}
				for _, ci := range store.ChangesInRange(op.F, op.T) {
					result = append(result, ci.ServerSeq)
				}
				e := ""
				if err != nil {
					e = err.Error()
				}
				emit(map[string]any{"op": "find", "run": run, "f": op.F, "t": op.T, "fetched": fetched, "result": result, "err": e})
			case "evict":
				store = mongo.NewChangeStore()
				emit(map[string]any{"op": "evict", "run": run})
			}
		}
	}
	_ = w.Flush()
	_ = o.Close()
	fmt.Printf("executed=%d\n", run)
}

func nz(x []int64) []int64 {
	if x == nil {
		return []int64{}
	}
	return x
}
