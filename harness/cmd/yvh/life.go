package main

import (
	"bufio"
	"context"
	"encoding/json"
	"errors"
	"flag"
	"fmt"
	"math"
	"net/http"
	"os"
	"reflect"

	"connectrpc.com/connect"
	"github.com/hashicorp/go-memdb"

	"github.com/yorkie-team/yorkie/api/converter"
	"github.com/yorkie-team/yorkie/api/types"
	api "github.com/yorkie-team/yorkie/api/yorkie/v1"
	"github.com/yorkie-team/yorkie/api/yorkie/v1/v1connect"
	"github.com/yorkie-team/yorkie/pkg/document"
	"github.com/yorkie-team/yorkie/pkg/document/change"
	yjson "github.com/yorkie-team/yorkie/pkg/document/json"
	"github.com/yorkie-team/yorkie/pkg/document/presence"
	"github.com/yorkie-team/yorkie/pkg/document/time"
	"github.com/yorkie-team/yorkie/pkg/key"

	"verif/harness/world"
)

// Property C11, small-scope exhaustive half: Lifecycle.tla enumerates every
// (state, call) pair of the client/document lifecycle - valid and invalid calls
// alike - and this driver issues the calls through the raw protocol (no SDK
// guard in the way), recording the server's decision, what it stored, and the
// status it keeps for the client and the document. LifecycleTrace.tla decides.

func init() { extraCmds["life"] = cmdLife }

type lifeCall struct {
	Op string `json:"op"`
	C  string `json:"c"`
	D  string `json:"d"`
}

type lifeRep struct {
	doc   *document.Document
	docID string
}

func codeOf(err error) string {
	if err == nil {
		return "ok"
	}
	var ce *connect.Error
	if errors.As(err, &ce) {
		return ce.Code().String()
	}
	return "transport"
}

func cmdLife(args []string) {
	fs := flag.NewFlagSet("life", flag.ExitOnError)
	in := fs.String("in", "", "behaviours ndjson (each a list of calls)")
	out := fs.String("out", "", "trace ndjson")
	shard := fs.Int("shard", 0, "shard index")
	nshards := fs.Int("nshards", 1, "number of shards")
	_ = fs.Parse(args)
	f, err := os.Open(*in)
	if err != nil {
		fatal(2, "open: %v", err)
	}
	defer func() { _ = f.Close() }()
	o, err := os.Create(*out)
	if err != nil {
		fatal(2, "create: %v", err)
	}
	w := bufio.NewWriter(o)
	emit := func(m map[string]any) {
		b, _ := json.Marshal(m)
		_, _ = w.Write(b)
		_ = w.WriteByte('\n')
	}
	srv, err := world.StartServer(world.ServerOpts{})
	if err != nil {
		fatal(2, "server: %v", err)
	}
	defer srv.Stop()
	ctx := context.Background()
	project, err := srv.Y.DefaultProject(ctx)
	if err != nil {
		fatal(2, "project: %v", err)
	}
	cli := v1connect.NewYorkieServiceClient(http.DefaultClient, "http://"+srv.Addr,
		connect.WithInterceptors(hdrInterceptor(map[string]string{types.APIKeyKey: project.PublicKey})))
	mdb := memdbOf(srv)

	sc := bufio.NewScanner(f)
	sc.Buffer(make([]byte, 1<<20), 1<<26)
	run, lineNo := 0, 0
	for sc.Scan() {
		if len(sc.Bytes()) == 0 {
			continue
		}
		lineNo++
		if (lineNo-1)%*nshards != *shard {
			continue
		}
		var calls []lifeCall
		if err := json.Unmarshal(sc.Bytes(), &calls); err != nil {
			fatal(2, "behaviour: %v", err)
		}
		run++
		uid := fmt.Sprintf("life-%d-%d-%d", os.Getpid(), *shard, run)
		emit(map[string]any{"ev": "reset", "run": run, "n": len(calls), "op": "", "c": "", "d": "", "code": "", "skipped": false, "stored": 0,
			"removedflag": false, "cstatus": "", "dstatus": "", "vvrow": false, "docremoved": false})
		ids := map[string]string{}        // client -> id
		reps := map[string]*lifeRep{}     // c/d -> current local replica
		knownDoc := map[string]string{}   // d -> document id (learned by whoever attached first)
		docKey := func(d string) key.Key { return key.Key(uid + "-" + d) }
		rowsOf := func(d string) int {
			id, ok := knownDoc[d]
			if !ok {
				return 0
			}
			infos, err := srv.Be.DB.FindChangeInfosBetweenServerSeqs(ctx, types.DocRefKey{ProjectID: project.ID, DocID: types.ID(id)}, 1, math.MaxInt64)
			if err != nil {
				return -1
			}
			return len(infos)
		}
		for _, c := range calls {
			ev := map[string]any{"ev": "call", "run": run, "op": c.Op, "c": c.C, "d": c.D, "code": "", "skipped": false, "stored": 0, "removedflag": false,
				"cstatus": "", "dstatus": "", "vvrow": false, "docremoved": false, "n": 0}
			before := rowsOf(c.D)
			rk := c.C + "/" + c.D
			var cerr error
			var resPack *api.ChangePack
			switch c.Op {
			case "activate":
				res, err := cli.ActivateClient(ctx, connect.NewRequest(&api.ActivateClientRequest{ClientKey: uid + "-" + c.C}))
				cerr = err
				if err == nil {
					// ActivateClient always creates a new client identity: what the old one held is not ours any more
					ids[c.C] = res.Msg.ClientId
					for k := range reps {
						if len(k) > len(c.C) && k[:len(c.C)+1] == c.C+"/" {
							delete(reps, k)
						}
					}
				}
			case "deactivate":
				if ids[c.C] == "" {
					ev["skipped"] = true
					break
				}
				_, cerr = cli.DeactivateClient(ctx, connect.NewRequest(&api.DeactivateClientRequest{ClientId: ids[c.C], Synchronous: true}))
			case "attach":
				if ids[c.C] == "" {
					ev["skipped"] = true
					break
				}
				// like the SDK: a fresh local document for every attach
				doc := document.New(docKey(c.D))
				if id, err := time.ActorIDFromHex(ids[c.C]); err == nil {
					doc.SetActor(id)
				}
				// like the SDK, the attach request carries a change (so the instance's checkpoint moves off 0)
				_ = doc.Update(func(r *yjson.Object, _ *presence.Presence) error {
					r.SetInteger("a-"+c.C, 1)
					return nil
				})
				pb, _ := converter.ToChangePack(doc.CreateChangePack())
				res, err := cli.AttachDocument(ctx, connect.NewRequest(&api.AttachDocumentRequest{ClientId: ids[c.C], ChangePack: pb}))
				cerr = err
				if err == nil {
					resPack = res.Msg.ChangePack
					reps[rk] = &lifeRep{doc: doc, docID: res.Msg.DocumentId}
					if _, ok := knownDoc[c.D]; !ok {
						knownDoc[c.D] = res.Msg.DocumentId
					}
					doc.SetStatus(document.StatusAttached)
				}
			case "reattach":
				rep := reps[rk]
				if ids[c.C] == "" || rep == nil {
					ev["skipped"] = true
					break
				}
				pb, _ := converter.ToChangePack(rep.doc.CreateChangePack())
				res, err := cli.AttachDocument(ctx, connect.NewRequest(&api.AttachDocumentRequest{ClientId: ids[c.C], ChangePack: pb}))
				cerr = err
				if err == nil {
					resPack = res.Msg.ChangePack
				}
			case "sync", "detach", "remove":
				if ids[c.C] == "" {
					ev["skipped"] = true
					break
				}
				rep := reps[rk]
				docID := knownDoc[c.D]
				var doc *document.Document
				if rep != nil {
					doc, docID = rep.doc, rep.docID
				} else {
					if docID == "" {
						ev["skipped"] = true
						break
					}
					// never attached by this client: a fresh local document under the known id
					doc = document.New(docKey(c.D))
					if id, err := time.ActorIDFromHex(ids[c.C]); err == nil {
						doc.SetActor(id)
					}
				}
				if doc.Status() != document.StatusRemoved {
					_ = doc.Update(func(r *yjson.Object, _ *presence.Presence) error {
						r.SetInteger("k-"+c.C, 1)
						return nil
					})
				}
				pack := doc.CreateChangePack()
				if c.Op == "remove" {
					pack.IsRemoved = true
				}
				pb, _ := converter.ToChangePack(pack)
				switch c.Op {
				case "sync":
					res, err := cli.PushPullChanges(ctx, connect.NewRequest(&api.PushPullChangesRequest{ClientId: ids[c.C], DocumentId: docID, ChangePack: pb}))
					cerr = err
					if err == nil {
						resPack = res.Msg.ChangePack
					}
				case "detach":
					res, err := cli.DetachDocument(ctx, connect.NewRequest(&api.DetachDocumentRequest{ClientId: ids[c.C], DocumentId: docID, ChangePack: pb}))
					cerr = err
					if err == nil {
						resPack = res.Msg.ChangePack
					}
				case "remove":
					res, err := cli.RemoveDocument(ctx, connect.NewRequest(&api.RemoveDocumentRequest{ClientId: ids[c.C], DocumentId: docID, ChangePack: pb}))
					cerr = err
					if err == nil {
						resPack = res.Msg.ChangePack
					}
				}
				if cerr == nil && rep != nil && resPack != nil {
					if p, err := converter.FromChangePack(resPack); err == nil {
						_ = applyQuiet(rep.doc, p)
						if c.Op == "detach" && rep.doc.Status() != document.StatusRemoved {
							rep.doc.SetStatus(document.StatusDetached)
						}
					}
				}
			default:
				fatal(2, "unknown call %s", c.Op)
			}
			if ev["skipped"] == true {
				emit(ev)
				continue
			}
			ev["code"] = codeOf(cerr)
			if resPack != nil {
				ev["removedflag"] = resPack.IsRemoved
			}
			if after := rowsOf(c.D); after >= 0 && before >= 0 {
				ev["stored"] = after - before
			}
			// what the server keeps for this client and this document
			if id := ids[c.C]; id != "" {
				if ci, err := srv.Be.DB.FindClientInfoByRefKey(ctx, types.ClientRefKey{ProjectID: project.ID, ClientID: types.ID(id)}); err == nil {
					ev["cstatus"] = fmt.Sprint(ci.Status)
					if did := knownDoc[c.D]; did != "" {
						if di, ok := ci.Documents[types.ID(did)]; ok {
							ev["dstatus"] = fmt.Sprint(di.Status)
						} else {
							ev["dstatus"] = "none"
						}
						ev["vvrow"] = hasVVRow(mdb, did, id)
					}
				}
			}
			if did := knownDoc[c.D]; did != "" {
				if di, err := srv.Be.DB.FindDocInfoByRefKey(ctx, types.DocRefKey{ProjectID: project.ID, DocID: types.ID(did)}); err == nil {
					ev["docremoved"] = di.IsRemoved()
				}
			}
			emit(ev)
		}
	}
	_ = w.Flush()
	_ = o.Close()
	fmt.Printf("executed=%d\n", run)
}

func applyQuiet(d *document.Document, p *change.Pack) (err error) {
	defer func() {
		if r := recover(); r != nil {
			err = fmt.Errorf("panic: %v", r)
		}
	}()
	return d.ApplyChangePack(p)
}

// hasVVRow looks the (document, client) row up in the memdb table of version vectors.
func hasVVRow(mdb *memdb.MemDB, docID, clientID string) bool {
	txn := mdb.Txn(false)
	defer txn.Abort()
	it, err := txn.Get("versionvectors", "id")
	if err != nil {
		fatal(2, "versionvectors: %v", err)
	}
	for raw := it.Next(); raw != nil; raw = it.Next() {
		v := reflect.ValueOf(raw)
		d, _ := strField(v, "DocID")
		c, _ := strField(v, "ClientID")
		if d == docID && c == clientID {
			return true
		}
	}
	return false
}
