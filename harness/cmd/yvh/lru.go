package main

import (
	"bufio"
	"encoding/json"
	"flag"
	"os"
	gotime "time"

	"github.com/yorkie-team/yorkie/pkg/cache"
)

func init() { extraCmds["lru"] = cmdLRU }

type lruOp struct {
	Op string `json:"op"`
	K  int    `json:"k"`
	V  int    `json:"v"`
}

type lruAPI interface {
	Get(int) (int, bool)
	Add(int, int) bool
	Contains(int) bool
	Peek(int) (int, bool)
	Remove(int) bool
	Purge()
	Len() int
	Stats() *cache.Stats
}

// cmdLRU replays behaviours of Cache.tla on the real pkg/cache caches (the
// sharded LRU and the expirable LRU) and records every call with its result.
func cmdLRU(args []string) {
	fs := flag.NewFlagSet("lru", flag.ExitOnError)
	in := fs.String("in", "", "behaviours ndjson (each a list of ops)")
	out := fs.String("out", "", "trace ndjson")
	shard := fs.Int("shard", 0, "shard index")
	nshards := fs.Int("nshards", 1, "number of shards")
	_ = fs.Parse(args)
	f, err := os.Open(*in)
	if err != nil {
		fatal(2, "open: %v", err)
	}
	defer func() { _ = f.Close() }()
	o, err := os.Create(*out)
	if err != nil {
		fatal(2, "create: %v", err)
	}
	w := bufio.NewWriter(o)
	emit := func(m map[string]any) {
		b, _ := json.Marshal(m)
		_, _ = w.Write(b)
		_ = w.WriteByte('\n')
	}
	const ttl = 100 * gotime.Millisecond
	sc := bufio.NewScanner(f)
	sc.Buffer(make([]byte, 1<<20), 1<<26)
	run := 0
	lineNo := 0
	for sc.Scan() {
		if len(sc.Bytes()) == 0 {
			continue
		}
		lineNo++
		if (lineNo-1)%*nshards != *shard {
			continue
		}
		var ops []lruOp
		if err := json.Unmarshal(sc.Bytes(), &ops); err != nil {
			fatal(2, "behaviour: %v", err)
		}
		for _, kind := range []string{"sharded", "expiring"} {
			var c lruAPI
			size := 0
			if kind == "sharded" {
				size = 16 // one entry per shard: evictions happen with 8 keys whenever two share a shard
				lc, err := cache.NewLRU[int, int](size, "verif")
				if err != nil {
					fatal(2, "lru: %v", err)
				}
				c = lc
			} else {
				size = 3
				lc, err := cache.NewLRUWithExpires[int, int](size, ttl, "verif")
				if err != nil {
					fatal(2, "lru: %v", err)
				}
				c = lc
			}
			run++
			emit(map[string]any{"op": "reset", "run": run, "kind": kind, "size": size, "k": 0, "v": 0, "hit": false, "got": 0, "young": true, "len": 0, "total": 0})
			added := map[int]gotime.Time{}
			for _, op := range ops {
				e := map[string]any{"op": op.Op, "k": op.K, "v": op.V, "hit": false, "got": 0, "total": 0, "young": true}
				if t, ok := added[op.K]; ok && kind == "expiring" {
					// a read counts as "right after the Add" only if well inside the TTL (scheduling delays)
					e["young"] = gotime.Since(t) < ttl/2
				}
				switch op.Op {
				case "add":
					c.Add(op.K, op.V)
					added[op.K] = gotime.Now()
				case "get":
					v, ok := c.Get(op.K)
					e["hit"], e["got"] = ok, v
				case "peek":
					v, ok := c.Peek(op.K)
					e["hit"], e["got"] = ok, v
				case "contains":
					e["hit"] = c.Contains(op.K)
				case "remove":
					c.Remove(op.K)
				case "purge":
					c.Purge()
				case "sleep":
					if kind == "expiring" {
						// the expirable LRU expires in buckets of ttl/100: wait well beyond ttl
						gotime.Sleep(2*ttl + 5*gotime.Millisecond)
					} else {
						e["op"] = "nop"
					}
				}
				e["len"] = c.Len()
				emit(e)
			}
			emit(map[string]any{"op": "end", "k": 0, "v": 0, "hit": false, "got": 0, "young": true, "len": c.Len(), "total": c.Stats().Total()})
		}
	}
	_ = w.Flush()
	_ = o.Close()
}
