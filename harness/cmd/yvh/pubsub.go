package main

import (
	"bufio"
	"context"
	"encoding/json"
	"flag"
	"fmt"
	"math/rand"
	"os"
	"sync"
	"sync/atomic"
	gotime "time"

	"github.com/yorkie-team/yorkie/api/types"
	"github.com/yorkie-team/yorkie/api/types/events"
	"github.com/yorkie-team/yorkie/pkg/document/time"
	"github.com/yorkie-team/yorkie/server/backend/pubsub"
)

func init() { extraCmds["pubsub"] = cmdPubSub }

// cmdPubSub: free-running concurrent Subscribe / Publish / Unsubscribe on the
// real pubsub.PubSub (built with -race by the check). The state is lock-free
// from the caller's point of view, so every call is logged with its START and
// END under one process-wide sequence number (never wall-clock time);
// PubSubTrace.tla decides Delivered / NoLeak on the recorded history.
func cmdPubSub(args []string) {
	fs := flag.NewFlagSet("pubsub", flag.ExitOnError)
	out := fs.String("out", "", "trace ndjson")
	runs := fs.Int("runs", 10, "runs")
	seed := fs.Int64("seed", 1, "seed")
	nsub := fs.Int("subs", 4, "subscribers")
	npub := fs.Int("pubs", 3, "publishers")
	stall := fs.Bool("stall", false, "one consumer stops reading (stalled consumer)")
	lastw := fs.Int("lastwatcher", 0, "mode: on this many keys per run, a watcher subscribes while a churner keeps being the last watcher that leaves")
	_ = fs.Parse(args)
	o, err := os.Create(*out)
	if err != nil {
		fatal(2, "create: %v", err)
	}
	w := bufio.NewWriter(o)
	var mu sync.Mutex
	var seq int64
	emit := func(m map[string]any) {
		mu.Lock()
		seq++
		m["i"] = seq
		if _, ok := m["key"]; !ok {
			m["key"] = ""
		}
		b, _ := json.Marshal(m)
		_, _ = w.Write(b)
		_ = w.WriteByte('\n')
		mu.Unlock()
	}
	rng := rand.New(rand.NewSource(*seed))
	ctx := context.Background()
	actor := func(i int) time.ActorID { var a time.ActorID; a[11] = byte(i); return a }
	for run := 1; run <= *runs && *lastw > 0; run++ {
		lastWatcherRun(run, *lastw, rng, emit)
	}
	for run := 1; run <= *runs && *lastw == 0; run++ {
		ps := pubsub.New()
		key := types.DocRefKey{ProjectID: "p", DocID: types.ID(fmt.Sprintf("d%d", run))}
		stalled := ""
		if *stall {
			stalled = "s1"
		}
		emit(map[string]any{"ev": "reset", "run": run, "subs": *nsub, "pubs": *npub, "stalled": stalled})
		var wg sync.WaitGroup
		var pubsDone, panics int32
		// every random choice is drawn here, before any goroutine starts
		unsubAt := make([]int, *nsub)
		delays := make([]int, *nsub)
		stay := make([]int, *nsub)
		churn := make([]int, *nsub)
		churnStay := make([]int, *nsub)
		for s := 0; s < *nsub; s++ {
			if run%2 == 0 {
				churn[s] = 1 + rng.Intn(3)
				churnStay[s] = rng.Intn(8)
			}
			unsubAt[s] = rng.Intn(3) // 0: unsubscribe early, 1: mid, 2: stays until the end
			delays[s] = rng.Intn(30)
			if run%2 == 0 {
				delays[s] = 0 // everybody at once
			}
			if unsubAt[s] == 0 {
				stay[s] = 20 + rng.Intn(40)
			} else {
				stay[s] = 120 + rng.Intn(100)
			}
		}
		pubDelay := make([][]int, *npub)
		for p := 0; p < *npub; p++ {
			for k := 0; k < 4; k++ {
				pubDelay[p] = append(pubDelay[p], 10+rng.Intn(60))
			}
		}
		quiet := make(chan struct{})
		for s := 0; s < *nsub; s++ {
			s := s
			wg.Add(1)
			go func() {
				defer wg.Done()
				defer func() {
					if p := recover(); p != nil {
						atomic.AddInt32(&panics, 1)
						emit(map[string]any{"ev": "panic", "run": run, "what": fmt.Sprint(p)})
					}
				}()
				gotime.Sleep(gotime.Duration(delays[s]) * gotime.Millisecond)
				// churn: a few short-lived subscriptions first (generations of the subscription set come and go)
				for r := 0; r < churn[s]; r++ {
					cname := fmt.Sprintf("s%d.%d", s+1, r+1)
					emit(map[string]any{"ev": "sub.start", "run": run, "s": cname})
					csub, _, err := ps.Subscribe(ctx, actor(100+s), key, 0)
					emit(map[string]any{"ev": "sub.end", "run": run, "s": cname, "ok": err == nil})
					if err != nil {
						continue
					}
					cdone := make(chan struct{})
					go func() {
						defer close(cdone)
						for e := range csub.Events() {
							emit(map[string]any{"ev": "recv", "run": run, "s": cname, "from": fmt.Sprintf("p%d", int(e.Actor[11])), "type": string(e.Type)})
						}
						emit(map[string]any{"ev": "closed", "run": run, "s": cname})
					}()
					gotime.Sleep(gotime.Duration(churnStay[s]) * gotime.Millisecond)
					emit(map[string]any{"ev": "unsub.start", "run": run, "s": cname})
					ps.Unsubscribe(ctx, key, csub)
					emit(map[string]any{"ev": "unsub.end", "run": run, "s": cname})
					<-cdone
				}
				name := fmt.Sprintf("s%d", s+1)
				emit(map[string]any{"ev": "sub.start", "run": run, "s": name})
				sub, _, err := ps.Subscribe(ctx, actor(100+s), key, 0)
				emit(map[string]any{"ev": "sub.end", "run": run, "s": name, "ok": err == nil})
				if err != nil {
					return
				}
				done := make(chan struct{})
				go func() {
					defer close(done)
					n := 0
					for e := range sub.Events() {
						n++
						emit(map[string]any{"ev": "recv", "run": run, "s": name, "from": fmt.Sprintf("p%d", int(e.Actor[11])), "type": string(e.Type)})
						if *stall && s == 0 && n >= 1 {
							<-quiet // a stalled consumer: stops reading until the end
						}
					}
					emit(map[string]any{"ev": "closed", "run": run, "s": name})
				}()
				switch unsubAt[s] {
				case 0, 1:
					gotime.Sleep(gotime.Duration(stay[s]) * gotime.Millisecond)
				default:
					<-quiet
				}
				emit(map[string]any{"ev": "unsub.start", "run": run, "s": name})
				ps.Unsubscribe(ctx, key, sub)
				emit(map[string]any{"ev": "unsub.end", "run": run, "s": name})
				<-done
			}()
		}
		var pwg sync.WaitGroup
		for p := 0; p < *npub; p++ {
			p := p
			pwg.Add(1)
			go func() {
				defer pwg.Done()
				name := fmt.Sprintf("p%d", p+1)
				for k := 0; k < 4; k++ {
					gotime.Sleep(gotime.Duration(pubDelay[p][k]) * gotime.Millisecond)
					emit(map[string]any{"ev": "pub.start", "run": run, "p": name, "k": k})
					ps.Publish(ctx, actor(p+1), events.DocEvent{Type: events.DocChanged, Actor: actor(p + 1), Key: key})
					emit(map[string]any{"ev": "pub.end", "run": run, "p": name, "k": k})
				}
				atomic.AddInt32(&pubsDone, 1)
			}()
		}
		pwg.Wait()
		// bounded time, counted in flush windows: nine windows of the batch publisher (100 ms each; three were enough on an idle machine)
		if *stall {
			// every send to the stalled consumer costs the publisher its 100 ms timeout
			gotime.Sleep(gotime.Duration(900+110**npub*4) * gotime.Millisecond)
		} else {
			gotime.Sleep(900 * gotime.Millisecond)
		}
		emit(map[string]any{"ev": "quiet", "run": run})
		close(quiet)
		wg.Wait()
		emit(map[string]any{"ev": "end", "run": run, "ids": len(ps.ClientIDs(key)), "panics": int(atomic.LoadInt32(&panics))})
	}
	_ = w.Flush()
	_ = o.Close()
	fmt.Printf("executed=%d\n", *runs)
}


// lastWatcherRun: on every key a churner subscribes and unsubscribes in a tight
// loop (so it keeps being the LAST watcher that leaves, which closes the key's
// batch publisher) while one watcher subscribes once at a random moment. The
// churner stops, one event is published, and the watcher must get it (or a
// closed stream). Only the watcher's calls are logged: a subscriber that has
// started to unsubscribe is outside Delivered anyway.
func lastWatcherRun(run, nkeys int, rng *rand.Rand, emit func(map[string]any)) {
	ctx := context.Background()
	ps := pubsub.New()
	actor := func(i int) time.ActorID { var a time.ActorID; a[10] = byte(i >> 8); a[11] = byte(i); return a }
	emit(map[string]any{"ev": "reset", "run": run, "subs": nkeys, "pubs": nkeys, "stalled": ""})
	spins := make([]int, nkeys)
	for k := range spins {
		spins[k] = rng.Intn(3000)
	}
	type cell struct {
		key  types.DocRefKey
		sub  *pubsub.DocSubscription
		done chan struct{}
	}
	cells := make([]*cell, nkeys)
	var wg sync.WaitGroup
	for k := 0; k < nkeys; k++ {
		k := k
		kname := fmt.Sprintf("k%d", k+1)
		c := &cell{key: types.DocRefKey{ProjectID: "p", DocID: types.ID(fmt.Sprintf("d%d-%d", run, k))}}
		cells[k] = c
		var stop atomic.Bool
		churned := make(chan struct{})
		go func() {
			defer close(churned)
			for i := 0; !stop.Load() || i < 3; i++ {
				sub, _, err := ps.Subscribe(ctx, actor(1000+k), c.key, 0)
				if err == nil {
					ps.Unsubscribe(ctx, c.key, sub)
				}
				if stop.Load() {
					i++
				} else {
					i = 0
				}
			}
		}()
		wg.Add(1)
		go func() {
			defer wg.Done()
			for i := 0; i < spins[k]; i++ {
				_ = i * i
			}
			name := kname + ".w"
			emit(map[string]any{"ev": "sub.start", "run": run, "s": name, "key": kname})
			sub, _, err := ps.Subscribe(ctx, actor(2000+k), c.key, 0)
			emit(map[string]any{"ev": "sub.end", "run": run, "s": name, "ok": err == nil, "key": kname})
			stop.Store(true)
			<-churned
			if err != nil {
				return
			}
			c.sub = sub
			c.done = make(chan struct{})
			go func() {
				defer close(c.done)
				for e := range sub.Events() {
					emit(map[string]any{"ev": "recv", "run": run, "s": name, "from": fmt.Sprintf("%s.p", kname), "type": string(e.Type), "key": kname})
				}
				emit(map[string]any{"ev": "closed", "run": run, "s": name, "key": kname})
			}()
		}()
	}
	wg.Wait()
	for k, c := range cells {
		kname := fmt.Sprintf("k%d", k+1)
		emit(map[string]any{"ev": "pub.start", "run": run, "p": kname + ".p", "k": 0, "key": kname})
		ps.Publish(ctx, actor(3000+k), events.DocEvent{Type: events.DocChanged, Actor: actor(3000 + k), Key: c.key})
		emit(map[string]any{"ev": "pub.end", "run": run, "p": kname + ".p", "k": 0, "key": kname})
	}
	gotime.Sleep(900 * gotime.Millisecond)
	emit(map[string]any{"ev": "quiet", "run": run})
	ids := 0
	for k, c := range cells {
		if c.sub == nil {
			continue
		}
		name := fmt.Sprintf("k%d.w", k+1)
		emit(map[string]any{"ev": "unsub.start", "run": run, "s": name})
		ps.Unsubscribe(ctx, c.key, c.sub)
		emit(map[string]any{"ev": "unsub.end", "run": run, "s": name})
		<-c.done
		ids += len(ps.ClientIDs(c.key))
	}
	emit(map[string]any{"ev": "end", "run": run, "ids": ids, "panics": 0})
}
