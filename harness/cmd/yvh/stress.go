package main

import (
	"context"
	"flag"
	"fmt"
	"math"
	"math/rand"
	"os"
	"runtime"
	"sort"
	"sync"
	"sync/atomic"
	gotime "time"

	"github.com/yorkie-team/yorkie/api/types"
	"github.com/yorkie-team/yorkie/client"
	"github.com/yorkie-team/yorkie/pkg/document"
	"github.com/yorkie-team/yorkie/pkg/document/json"
	"github.com/yorkie-team/yorkie/pkg/document/presence"
	"github.com/yorkie-team/yorkie/pkg/key"
	"github.com/yorkie-team/yorkie/pkg/verifhook"
	"github.com/yorkie-team/yorkie/server/packs"

	"verif/harness/world"
)

// Property C16, free-running half: N clients x M documents issue random
// request mixes truly in parallel (run this binary built with -race), with
// random yields injected at every lock boundary; late clients attach in bursts
// so that concurrent snapshot pulls happen while writers push. Every call is
// recorded with its outcome and duration, every lock event with its goroutine;
// after a quiescent round the replicas, the stored log, a change-fed reference
// replica and the server's rebuild are recorded. StressTrace.tla decides.

func init() { extraCmds["stress"] = cmdStress }

type stressRec struct {
	mu  sync.Mutex
	seq int64
	evs []map[string]any
}

func (r *stressRec) add(m map[string]any) {
	r.mu.Lock()
	r.seq++
	m["seq"] = r.seq
	r.evs = append(r.evs, m)
	r.mu.Unlock()
}

type stressPlan struct {
	kind string // edit kinds: inc, set, add, txt ; sync ; idle
	doc  int
	val  int
}

func cmdStress(args []string) {
	fs := flag.NewFlagSet("stress", flag.ExitOnError)
	out := fs.String("out", "", "trace ndjson")
	runs := fs.Int("runs", 3, "runs")
	seed := fs.Int64("seed", 1, "seed")
	nClients := fs.Int("clients", 4, "steady clients")
	nLate := fs.Int("late", 6, "late attachers (in bursts)")
	nDocs := fs.Int("docs", 2, "documents")
	nOps := fs.Int("ops", 25, "steps per steady client")
	attachLimit := fs.Int("attachlimit", 0, "project MaxAttachmentsPerDocument (> 0 makes the handlers take the per-document attachment lock)")
	_ = fs.Parse(args)

	t, err := world.NewTrace(*out)
	if err != nil {
		fatal(2, "trace: %v", err)
	}
	srv, err := world.StartServer(world.ServerOpts{})
	if err != nil {
		fatal(2, "server: %v", err)
	}
	ctx := context.Background()
	project, err := srv.Y.DefaultProject(ctx)
	if err != nil {
		fatal(2, "project: %v", err)
	}
	th, iv := int64(3), int64(3)
	fields := &types.UpdatableProjectFields{SnapshotThreshold: &th, SnapshotInterval: &iv}
	if *attachLimit > 0 {
		fields.MaxAttachmentsPerDocument = attachLimit
	}
	if _, err := srv.Be.DB.UpdateProjectInfo(ctx, project.ID, fields); err != nil {
		fatal(2, "project settings: %v", err)
	}

	rec := &stressRec{}
	var stuck atomic.Bool
	var yieldOn atomic.Bool
	var yieldSeed int64 = *seed
	var ymu sync.Mutex
	yrng := rand.New(rand.NewSource(yieldSeed))
	verifhook.Set(func(point string, kv ...any) {
		if len(point) > 5 && point[:5] == "lock." && point != "lock.try" {
			k, mode := "", ""
			if len(kv) > 0 {
				k = fmt.Sprint(kv[0])
			}
			if len(kv) > 1 {
				mode = fmt.Sprint(kv[1])
			}
			rec.add(map[string]any{"ev": "lock", "gid": world.Goid(), "op": point[5:], "lock": world.LockKind(k), "mode": mode, "key": k})
			if yieldOn.Load() {
				ymu.Lock()
				n := yrng.Intn(8)
				ymu.Unlock()
				switch {
				case n == 0:
					gotime.Sleep(gotime.Duration(50+n*20) * gotime.Microsecond)
				case n < 4:
					runtime.Gosched()
				}
			}
		}
	})

	for run := 1; run <= *runs; run++ {
		rng := rand.New(rand.NewSource(*seed*1000 + int64(run)))
		rec.mu.Lock()
		rec.evs = nil
		rec.mu.Unlock()
		docKeys := make([]key.Key, *nDocs)
		for i := range docKeys {
			docKeys[i] = key.Key(fmt.Sprintf("stress-%d-%d-%d-%d", os.Getpid(), *seed, run, i))
		}
		t.Emit(map[string]any{"ev": "init", "run": run, "clients": *nClients, "late": *nLate, "docs": *nDocs, "seq": 0})

		type member struct {
			name string
			c    *client.Client
			docs []*document.Document // by doc index (nil = not attached)
			plan []stressPlan
			late bool
			wait gotime.Duration
		}
		var members []*member
		mk := func(name string, late bool) *member {
			c, err := client.Dial(srv.Addr, client.WithAPIKey(project.PublicKey), client.WithSyncLoopDuration(gotime.Hour))
			if err != nil {
				fatal(2, "dial: %v", err)
			}
			m := &member{name: name, c: c, docs: make([]*document.Document, *nDocs), late: late}
			members = append(members, m)
			return m
		}
		kinds := []string{"inc", "inc", "set", "add", "txt", "sync", "sync", "sync", "idle"}
		for i := 0; i < *nClients; i++ {
			m := mk(fmt.Sprintf("s%d", i+1), false)
			for j := 0; j < *nOps; j++ {
				m.plan = append(m.plan, stressPlan{kind: kinds[rng.Intn(len(kinds))], doc: rng.Intn(*nDocs), val: rng.Intn(1000)})
			}
		}
		for i := 0; i < *nLate; i++ {
			m := mk(fmt.Sprintf("l%d", i+1), true)
			// bursts: late clients start in groups at the same moment
			m.wait = gotime.Duration(1+(i/3)*3) * 4 * gotime.Millisecond
			m.plan = []stressPlan{{kind: "sync", doc: rng.Intn(*nDocs)}, {kind: "inc", doc: rng.Intn(*nDocs), val: 1}, {kind: "sync", doc: rng.Intn(*nDocs)}}
			if i%2 == 0 {
				// every other late client leaves again through the SDK's own Detach (its edit goes with it)
				m.plan = append(m.plan, stressPlan{kind: "detach", doc: 0})
			}
		}

		call := func(m *member, kind string, d int, f func(ctx context.Context) error) bool {
			if stuck.Load() {
				// a request did not return: the server is blocked, nothing more can be learned from this run
				return false
			}
			cctx, cancel := context.WithTimeout(ctx, 30*gotime.Second)
			defer cancel()
			t0 := gotime.Now()
			done := make(chan error, 1)
			go func() { done <- f(cctx) }()
			var err error
			timeout := false
			select {
			case err = <-done:
			case <-gotime.After(40 * gotime.Second):
				timeout, err = true, fmt.Errorf("no return within 40s")
				stuck.Store(true)
			}
			e := ""
			if err != nil {
				e = err.Error()
				if len(e) > 200 {
					e = e[:200]
				}
			}
			rec.add(map[string]any{"ev": "call", "c": m.name, "d": d, "kind": kind, "ok": err == nil, "err": e, "timeout": timeout,
				"ms": gotime.Since(t0).Milliseconds()})
			return err == nil
		}
		edit := func(m *member, p stressPlan, n int) {
			doc := m.docs[p.doc]
			if doc == nil {
				return
			}
			err := doc.Update(func(r *json.Object, _ *presence.Presence) error {
				switch p.kind {
				case "inc":
					r.GetCounter("n").Increase(1)
				case "set":
					r.GetObject("o").SetInteger(fmt.Sprintf("%s-%d", m.name, p.val%5), p.val)
				case "add":
					r.GetArray("a").AddInteger(p.val)
				case "txt":
					tx := r.GetText("t")
					n := len(tx.String()) // ASCII only
					tx.Edit(n, n, fmt.Sprintf("%c", 'a'+p.val%26))
				}
				return nil
			})
			e := ""
			if err != nil {
				e = err.Error()
			}
			rec.add(map[string]any{"ev": "edit", "c": m.name, "d": p.doc, "kind": p.kind, "ok": err == nil, "err": e})
		}

		// the first steady client creates the containers
		first := members[0]
		if !call(first, "activate", -1, func(c context.Context) error { return first.c.Activate(c) }) {
			fatal(2, "activate failed")
		}
		for d := 0; d < *nDocs; d++ {
			doc := document.New(docKeys[d])
			dd := d
			if !call(first, "attach", d, func(c context.Context) error { return first.c.Attach(c, doc) }) {
				fatal(2, "attach failed")
			}
			first.docs[d] = doc
			_ = doc.Update(func(r *json.Object, _ *presence.Presence) error {
				r.SetNewCounter("n", 0)
				r.SetNewObject("o")
				r.SetNewArray("a")
				r.SetNewText("t")
				return nil
			})
			call(first, "sync", dd, func(c context.Context) error { return first.c.Sync(c, client.WithKey(docKeys[dd])) })
		}

		// ---- parallel phase
		yieldOn.Store(true)
		var wg sync.WaitGroup
		start := make(chan struct{})
		for _, m := range members {
			wg.Add(1)
			go func(m *member) {
				defer wg.Done()
				<-start
				if m.wait > 0 {
					gotime.Sleep(m.wait)
				}
				if m != first {
					if !call(m, "activate", -1, func(c context.Context) error { return m.c.Activate(c) }) {
						return
					}
				}
				for d := 0; d < *nDocs; d++ {
					if m == first || (m.late && d != m.plan[0].doc) {
						continue
					}
					doc := document.New(docKeys[d])
					dd := d
					if call(m, "attach", d, func(c context.Context) error { return m.c.Attach(c, doc) }) {
						m.docs[dd] = doc
					}
				}
				for i, p := range m.plan {
					if m.late {
						p.doc = m.plan[0].doc
					}
					switch p.kind {
					case "sync":
						if m.docs[p.doc] != nil {
							pd := p.doc
							call(m, "sync", pd, func(c context.Context) error { return m.c.Sync(c, client.WithKey(docKeys[pd])) })
						}
					case "detach":
						if doc := m.docs[p.doc]; doc != nil {
							pd := p.doc
							if call(m, "detach", pd, func(c context.Context) error { return m.c.Detach(c, doc) }) {
								m.docs[pd] = nil
							}
						}
					case "idle":
						runtime.Gosched()
					default:
						edit(m, p, i)
					}
				}
			}(m)
		}
		// background: compaction attempts (refused while clients are attached; they still take the locks)
		stopBG := make(chan struct{})
		var bg sync.WaitGroup
		bg.Add(1)
		go func() {
			defer bg.Done()
			for i := 0; ; i++ {
				select {
				case <-stopBG:
					return
				case <-gotime.After(3 * gotime.Millisecond):
				}
				// (a compaction that waits for the document lock for ever is the other half of a deadlock)
				cdone := make(chan struct{})
				k := docKeys[i%*nDocs]
				go func() { _ = srv.Y.CompactDocument(ctx, k, false); close(cdone) }()
				select {
				case <-cdone:
				case <-gotime.After(45 * gotime.Second):
					rec.add(map[string]any{"ev": "call", "c": "bg", "d": i % *nDocs, "kind": "compact", "ok": false, "err": "no return within 45s", "timeout": true, "ms": 45000})
					stuck.Store(true)
					return
				}
			}
		}()
		close(start)
		wg.Wait()
		close(stopBG)
		bg.Wait()
		yieldOn.Store(false)

		if stuck.Load() {
			// flush what was recorded and leave: the blocked server cannot be shut down gracefully
			rec.add(map[string]any{"ev": "end", "run": run})
			rec.mu.Lock()
			evs := rec.evs
			rec.mu.Unlock()
			sort.Slice(evs, func(i, j int) bool { return evs[i]["seq"].(int64) < evs[j]["seq"].(int64) })
			for _, e := range evs {
				normStress(e)
				t.Emit(e)
			}
			_ = t.Close()
			os.Exit(0)
		}
		// ---- quiescent rounds
		for round := 0; round < 3; round++ {
			for _, m := range members {
				for d := 0; d < *nDocs; d++ {
					if m.docs[d] != nil {
						dd := d
						call(m, "sync", d, func(c context.Context) error { return m.c.Sync(c, client.WithKey(docKeys[dd])) })
					}
				}
			}
		}
		for _, m := range members {
			for d := 0; d < *nDocs; d++ {
				if m.docs[d] != nil {
					rec.add(map[string]any{"ev": "final", "c": m.name, "d": d, "content": m.docs[d].Marshal(),
						"pend": len(m.docs[d].CreateChangePack().Changes)})
				}
			}
		}
		// ---- the stored log, the change-fed reference and the server's rebuild
		for d := 0; d < *nDocs; d++ {
			info, err := srv.Be.DB.FindDocInfoByKey(ctx, project.ID, docKeys[d])
			if err != nil {
				fatal(2, "docinfo: %v", err)
			}
			infos, err := srv.Be.DB.FindChangeInfosBetweenServerSeqs(ctx, info.RefKey(), 1, math.MaxInt64)
			if err != nil {
				fatal(2, "log: %v", err)
			}
			rows := []any{}
			ref := document.NewInternalDocument(docKeys[d])
			refOK, refErr := true, ""
			for _, ci := range infos {
				rows = append(rows, map[string]any{"s": ci.ServerSeq, "actor": ci.ActorID.String(), "cs": ci.ClientSeq})
				cn, err := ci.ToChange()
				if err == nil {
					_, _, err = ref.ApplyChanges(cn)
				}
				if err != nil && refOK {
					refOK, refErr = false, err.Error()
				}
			}
			rec.add(map[string]any{"ev": "log", "d": d, "rows": rows, "head": info.ServerSeq})
			rec.add(map[string]any{"ev": "ref", "d": d, "ok": refOK, "err": refErr, "content": ref.Marshal()})
			bdoc, err := packs.BuildInternalDocForServerSeq(ctx, srv.Be, info, info.ServerSeq)
			be := map[string]any{"ev": "build", "d": d, "ok": err == nil, "err": "", "content": ""}
			if err != nil {
				be["err"] = err.Error()
			} else {
				be["content"] = bdoc.Marshal()
			}
			rec.add(be)
		}
		// ---- everybody leaves at once
		yieldOn.Store(true)
		var wg2 sync.WaitGroup
		for _, m := range members {
			wg2.Add(1)
			go func(m *member) {
				defer wg2.Done()
				call(m, "deactivate", -1, func(c context.Context) error { return m.c.Deactivate(c) })
				_ = m.c.Close()
			}(m)
		}
		wg2.Wait()
		yieldOn.Store(false)
		rec.add(map[string]any{"ev": "end", "run": run})

		rec.mu.Lock()
		evs := rec.evs
		rec.mu.Unlock()
		sort.Slice(evs, func(i, j int) bool { return evs[i]["seq"].(int64) < evs[j]["seq"].(int64) })
		for _, e := range evs {
			normStress(e)
			t.Emit(e)
		}
	}
	_ = t.Close()
	verifhook.Set(nil)
	srv.Stop()
}

// every event carries every field (TLC records)
func normStress(e map[string]any) {
	def := map[string]any{"c": "", "d": -1, "kind": "", "ok": true, "err": "", "timeout": false, "ms": 0, "gid": 0, "op": "", "lock": "", "mode": "",
		"key": "", "content": "", "pend": 0, "rows": []any{}, "head": 0, "run": 0}
	for k, v := range def {
		if _, ok := e[k]; !ok {
			e[k] = v
		}
	}
}
