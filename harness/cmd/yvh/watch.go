package main

import (
	"context"
	"flag"
	"fmt"
	"math/rand"
	"os"
	gotime "time"

	"github.com/yorkie-team/yorkie/client"
	"github.com/yorkie-team/yorkie/pkg/document"
	"github.com/yorkie-team/yorkie/pkg/document/json"
	"github.com/yorkie-team/yorkie/pkg/document/presence"
	"github.com/yorkie-team/yorkie/pkg/key"

	"verif/harness/world"
)

// Property C17, end to end: watchers attach with realtime sync (the SDK opens the
// WatchDocument stream and pulls only when a change event arrives), a writer
// pushes changes, and every watcher whose watch is established must show each
// change within the bound WITHOUT ever being asked to sync. A watcher that left
// is not waited for. WatchTrace.tla decides.

func init() { extraCmds["watch"] = cmdWatch }

func cmdWatch(args []string) {
	fs := flag.NewFlagSet("watch", flag.ExitOnError)
	out := fs.String("out", "", "trace ndjson")
	runs := fs.Int("runs", 4, "runs")
	seed := fs.Int64("seed", 1, "seed")
	nw := fs.Int("watchers", 3, "watchers")
	rounds := fs.Int("rounds", 5, "pushes per run")
	_ = fs.Parse(args)
	t, err := world.NewTrace(*out)
	if err != nil {
		fatal(2, "trace: %v", err)
	}
	srv, err := world.StartServer(world.ServerOpts{})
	if err != nil {
		fatal(2, "server: %v", err)
	}
	ctx := context.Background()
	project, err := srv.Y.DefaultProject(ctx)
	if err != nil {
		fatal(2, "project: %v", err)
	}
	rng := rand.New(rand.NewSource(*seed))
	const bound = 5 * gotime.Second
	n := 0
	emit := func(m map[string]any) {
		n++
		def := map[string]any{"run": 0, "w": "", "k": 0, "ok": true, "err": "", "ms": 0, "value": 0}
		for k, v := range def {
			if _, ok := m[k]; !ok {
				m[k] = v
			}
		}
		m["i"] = n
		t.Emit(m)
	}
	for run := 1; run <= *runs; run++ {
		k := key.Key(fmt.Sprintf("watch-%d-%d-%d", os.Getpid(), *seed, run))
		emit(map[string]any{"ev": "reset", "run": run})
		dial := func() *client.Client {
			c, err := client.Dial(srv.Addr, client.WithAPIKey(project.PublicKey), client.WithSyncLoopDuration(10*gotime.Millisecond))
			if err != nil {
				fatal(2, "dial: %v", err)
			}
			if err := c.Activate(ctx); err != nil {
				fatal(2, "activate: %v", err)
			}
			return c
		}
		writer := dial()
		wdoc := document.New(k)
		if err := writer.Attach(ctx, wdoc); err != nil {
			fatal(2, "writer attach: %v", err)
		}
		_ = wdoc.Update(func(r *json.Object, _ *presence.Presence) error {
			r.SetNewCounter("n", 0)
			return nil
		})
		if err := writer.Sync(ctx); err != nil {
			fatal(2, "writer sync: %v", err)
		}
		type watcher struct {
			name string
			c    *client.Client
			d    *document.Document
			on   bool
		}
		var ws []*watcher
		for i := 0; i < *nw; i++ {
			w := &watcher{name: fmt.Sprintf("w%d", i+1), c: dial(), d: document.New(k)}
			err := w.c.Attach(ctx, w.d, client.WithRealtimeSync())
			w.on = err == nil
			emit(map[string]any{"ev": "watch.on", "run": run, "w": w.name, "ok": err == nil, "err": fmt.Sprint(err)})
			ws = append(ws, w)
		}
		// one watcher leaves in the middle of the run
		leaveAt, leaver := 1+rng.Intn(*rounds), rng.Intn(*nw)
		// read under the document's own mutex (an Update without operations makes no change): Root()/Marshal() are
		// not synchronised with the sync loop that applies the pulled changes in realtime mode
		value := func(d *document.Document) int {
			v := -1
			_ = d.Update(func(r *json.Object, _ *presence.Presence) error {
				if c := r.GetCounter("n"); c != nil {
					_, _ = fmt.Sscan(c.Marshal(), &v)
				}
				return nil
			})
			return v
		}
		for round := 1; round <= *rounds; round++ {
			if round == leaveAt {
				w := ws[leaver]
				err := w.c.Detach(ctx, w.d)
				w.on = false
				emit(map[string]any{"ev": "watch.off", "run": run, "w": w.name, "ok": err == nil, "err": fmt.Sprint(err)})
			}
			gotime.Sleep(gotime.Duration(rng.Intn(30)) * gotime.Millisecond)
			_ = wdoc.Update(func(r *json.Object, _ *presence.Presence) error {
				r.GetCounter("n").Increase(1)
				return nil
			})
			err := writer.Sync(ctx)
			emit(map[string]any{"ev": "push", "run": run, "k": round, "ok": err == nil, "err": fmt.Sprint(err)})
			t0 := gotime.Now()
			pending := map[*watcher]bool{}
			for _, w := range ws {
				if w.on {
					pending[w] = true
				}
			}
			for len(pending) > 0 && gotime.Since(t0) < bound {
				for w := range pending {
					if v := value(w.d); v >= round {
						emit(map[string]any{"ev": "seen", "run": run, "w": w.name, "k": round, "value": v, "ms": gotime.Since(t0).Milliseconds()})
						delete(pending, w)
					}
				}
				gotime.Sleep(2 * gotime.Millisecond)
			}
			for w := range pending {
				emit(map[string]any{"ev": "timeout", "run": run, "w": w.name, "k": round, "value": value(w.d), "ms": gotime.Since(t0).Milliseconds()})
			}
		}
		for _, w := range ws {
			_ = w.c.Deactivate(ctx)
			_ = w.c.Close()
		}
		_ = writer.Deactivate(ctx)
		_ = writer.Close()
		emit(map[string]any{"ev": "end", "run": run})
	}
	_ = t.Close()
	srv.Stop()
	fmt.Printf("executed=%d\n", *runs)
}
