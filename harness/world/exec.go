package world

import (
	"fmt"
	"math"
	"strings"

	"github.com/yorkie-team/yorkie/api/converter"
	"github.com/yorkie-team/yorkie/api/types"
	"github.com/yorkie-team/yorkie/client"
	"github.com/yorkie-team/yorkie/pkg/document"
	"github.com/yorkie-team/yorkie/pkg/document/change"
	"github.com/yorkie-team/yorkie/pkg/document/crdt"
	"github.com/yorkie-team/yorkie/pkg/document/json"
	"github.com/yorkie-team/yorkie/pkg/document/presence"
	"github.com/yorkie-team/yorkie/pkg/key"
	"github.com/yorkie-team/yorkie/server/backend/database"
	"github.com/yorkie-team/yorkie/server/packs"
	"github.com/yorkie-team/yorkie/server/revisions"
)

// Step is one action of a behaviour.
type Step struct {
	A   string         `json:"a"`
	C   string         `json:"c,omitempty"`
	D   string         `json:"d,omitempty"`
	Op  *Op            `json:"op,omitempty"`
	Opt map[string]any `json:"opt,omitempty"`
	N   int            `json:"n,omitempty"`
}

// Behaviour is one generated history + schedule + configuration.
type Behaviour struct {
	ID        string   `json:"id"`
	NClients  int      `json:"nclients"`
	Docs      []string `json:"docs"`
	Kinds     []string `json:"kinds"`
	Init      []Op     `json:"init"`      // initial content ops, executed by c1 before others attach
	Threshold int64    `json:"threshold"` // 0 => leave project default
	Interval  int64    `json:"interval"`
	Setup     string   `json:"setup"` // "std" | "none"
	Steps     []Step   `json:"steps"`
	Final     string   `json:"final"` // "quiesce" | ""
	Family    string   `json:"family"`
	Guards    []string `json:"guards"` // extra known-finding guards for this behaviour
}

func optBool(m map[string]any, k string) bool {
	if m == nil {
		return false
	}
	b, _ := m[k].(bool)
	return b
}

func optStr(m map[string]any, k string) string {
	if m == nil {
		return ""
	}
	s, _ := m[k].(string)
	return s
}

// errClass shortens an error to a stable class string.
func errClass(err error) string {
	if err == nil {
		return ""
	}
	s := err.Error()
	if len(s) > 300 {
		s = s[:300]
	}
	return s
}

// Executor runs behaviours against one world.
type Executor struct {
	W      *World
	B      *Behaviour
	opCtr  map[string]int
	docIDs map[string]types.ID
}

// SetProjectSnapshot sets the default project's snapshot threshold/interval.
func (w *World) SetProjectSnapshot(threshold, interval int64) error {
	f := &types.UpdatableProjectFields{}
	if threshold > 0 {
		f.SnapshotThreshold = &threshold
	}
	if interval > 0 {
		f.SnapshotInterval = &interval
	}
	if threshold <= 0 && interval <= 0 {
		return nil
	}
	info, err := w.S.Be.DB.UpdateProjectInfo(w.Ctx, w.Project.ID, f)
	if err != nil {
		return err
	}
	w.Project = info.ToProject()
	return nil
}

// emitHooks turns the drained hook events into PP trace events.
func (w *World) emitHooks(step int, rpc string) error {
	if err := w.H.WaitBG(); err != nil {
		return err
	}
	evs := w.H.Drain()
	open := map[int64]map[string]any{}
	for _, he := range evs {
		data := he.Data
		switch he.Point {
		case "pp.enter":
			d := w.DocNameByKey(data["dockey"].(string))
			cname := data["client"].(string)
			sess := 0
			if c, ok := w.Clients[cname]; ok {
				if r, ok := c.Docs[d]; ok {
					sess = r.Sess
					if r.DocID == "" {
						r.DocID = types.ID(data["docid"].(string))
					}
				}
			}
			pp := map[string]any{
				"ev": "PP", "step": step, "rpc": rpc, "c": cname, "d": d, "sess": sess,
				"req": data["req"], "status": data["status"], "pushonly": data["pushonly"],
				"gcoff": data["gcoff"], "nopres": data["nopres"], "ci": data["ci"],
				"rows": []any{}, "created": false, "seq": 0, "epoch": 0, "cpc": 0, "vvset": false, "concurrent": false, "rid": "",
				"init": -1, "hasmin": false, "min": map[string]any{},
				"docremoved": false, "nopresdoc": false,
			}
			open[he.GID] = pp
		case "pp.create.after":
			if pp := open[he.GID]; pp != nil {
				pp["rows"], pp["seq"], pp["epoch"], pp["cpc"] = data["rows"], data["seq"], data["epoch"], data["cpc"]
				pp["created"] = true
				pp["docremoved"], pp["nopresdoc"] = data["removed"], data["nopresdoc"]
			}
		case "pp.pull.after":
			if pp := open[he.GID]; pp != nil {
				pp["init"] = data["init"]
			}
		case "db.vv.between":
			if pp := open[he.GID]; pp != nil {
				pp["vvset"] = true
			}
		case "pp.vv.after":
			if pp := open[he.GID]; pp != nil {
				pp["min"], pp["hasmin"] = data["min"], true
			}
		case "pp.exit":
			if pp := open[he.GID]; pp != nil {
				pp["err"] = data["err"]
				if res, ok := data["res"]; ok {
					pp["ok"], pp["res"] = true, res
				} else {
					pp["ok"] = false
					pp["res"] = map[string]any{"cp": []any{0, 0}, "pulled": []any{}, "snap": false,
						"hasvv": false, "vv": map[string]any{}, "removed": false, "snappres": ""}
				}
				w.T.Emit(pp)
				delete(open, he.GID)
			}
		}
	}
	for _, pp := range open {
		// the handler panicked (or is blocked): no pp.exit was seen
		pp["ok"], pp["err"] = false, "handler did not return"
		pp["res"] = map[string]any{"cp": []any{0, 0}, "pulled": []any{}, "snap": false,
			"hasvv": false, "vv": map[string]any{}, "removed": false, "snappres": ""}
		w.T.Emit(pp)
	}
	return nil
}

// RefDoc is a passive, change-fed, never-garbage-collected replica kept in the
// same run (same actors, same tickets) as reference for C02/C03.
type RefDoc struct {
	Doc    *document.InternalDocument
	Direct *document.InternalDocument // fed the ORIGINAL in-memory changes (no wire, no storage encoding)
	Seq    int64
	Epoch  int64
}

// feedRefs advances the reference replica of every document to the log head,
// emitting one Ref event per prefix.
func (w *World) feedRefs(step int) error {
	for _, d := range sortedKeys(w.DocKeys) {
		info := w.docInfoOf(d)
		if info == nil {
			continue
		}
		ref := w.refs[d]
		if ref == nil || ref.Epoch != info.Epoch || ref.Doc == nil {
			ref = &RefDoc{Doc: document.NewInternalDocument(key.Key(w.DocKeys[d])),
				Direct: document.NewInternalDocument(key.Key(w.DocKeys[d])), Epoch: info.Epoch}
			w.refs[d] = ref
		}
		for ref.Seq < info.ServerSeq {
			next := ref.Seq + 1
			chs, err := w.S.Be.DB.FindChangesBetweenServerSeqs(w.Ctx, info.RefKey(), next, next)
			if err != nil {
				return err
			}
			ev := map[string]any{"ev": "Ref", "step": step, "d": d, "s": next, "epoch": info.Epoch, "ok": true, "err": ""}
			if len(chs) != 1 {
				ev["ok"], ev["err"] = false, fmt.Sprintf("log has %d rows at serverSeq %d", len(chs), next)
			} else if err := ref.Doc.ApplyChangePack(change.NewPack(key.Key(w.DocKeys[d]),
				change.InitialCheckpoint.NextServerSeq(next), chs, nil, nil), true); err != nil {
				ev["ok"], ev["err"] = false, errClass(err)
			}
			ref.Seq = next
			ev["content"] = ref.Doc.Marshal()
			ev["ncontent"] = NormContentOf(ref.Doc.RootObject())
			ev["pres"] = w.PresString(ref.Doc.AllPresences())
			// C09: the same row, but the original change object as the author made it
			ev["dcontent"], ev["dok"] = "", true
			if len(chs) == 1 && ref.Direct != nil {
				feed := chs
				if orig := w.origChange(d, chs[0]); orig != nil {
					feed = []*change.Change{orig}
					ev["dorig"] = true
				} else {
					ev["dorig"] = false
				}
				if err := ref.Direct.ApplyChangePack(change.NewPack(key.Key(w.DocKeys[d]),
					change.InitialCheckpoint.NextServerSeq(next), feed, nil, nil), true); err != nil {
					ev["dok"], ev["derr"] = false, errClass(err)
					ref.Direct = nil
				} else {
					ev["dcontent"] = ref.Direct.Marshal()
					ev["dgarbage"] = ref.Direct.GarbageLen()
				}
			}
			ev["garbage"] = 0
			if ref.Doc != nil {
				ev["garbage"] = ref.Doc.GarbageLen()
				// C18: YSON round trip of the reference at this prefix
				yok, yb, ya, yerr := YsonRoundTrip(ref.Doc.RootObject())
				ev["yson_ok"], ev["yson_before"], ev["yson_after"], ev["yson_err"] = yok, yb, ya, yerr
				// C09: snapshot bytes round trip
				sok, sc, sg, serr := SnapshotRoundTrip(ref.Doc)
				ev["snap_ok"], ev["snap_content"], ev["snap_garbage"], ev["snap_err"] = sok, sc, sg, serr
			}
			w.T.Emit(ev)
			if ev["ok"] == false {
				ref.Doc = nil
				break
			}
		}
	}
	return nil
}

func sortedKeys(m map[string]string) []string {
	var ks []string
	for k := range m {
		ks = append(ks, k)
	}
	// docs are d1..d9
	for i := range ks {
		for j := i + 1; j < len(ks); j++ {
			if ks[j] < ks[i] {
				ks[i], ks[j] = ks[j], ks[i]
			}
		}
	}
	return ks
}

func (w *World) docInfoOf(d string) *database.DocInfo {
	info, err := w.S.Be.DB.FindDocInfoByKey(w.Ctx, w.Project.ID, key.Key(w.DocKeys[d]))
	if err != nil {
		return nil
	}
	return info
}

// Run executes one behaviour and writes its trace.
func (w *World) Run(b *Behaviour) error {
	ExtraGuards = map[string]bool{}
	for _, g := range b.Guards {
		ExtraGuards[g] = true
	}
	if err := w.SetProjectSnapshot(b.Threshold, b.Interval); err != nil {
		return err
	}
	w.T.Emit(map[string]any{
		"ev": "Init", "id": b.ID, "family": b.Family, "clients": toAny(w.Order), "docs": toAny(b.Docs),
		"threshold": w.Project.SnapshotThreshold, "interval": w.Project.SnapshotInterval,
		"snapgcoff": w.S.Opts.SnapshotDisableGC,
	})
	stepNo := 0
	do := func(st Step) error {
		stepNo++
		return w.Step(stepNo, st, b)
	}
	if b.Setup == "std" {
		d := b.Docs[0]
		if err := do(Step{A: "attach", C: "c1", D: d}); err != nil {
			return err
		}
		if err := do(Step{A: "setup", C: "c1", D: d}); err != nil {
			return err
		}
		for _, op := range b.Init {
			op := op
			if err := do(Step{A: "edit", C: "c1", D: d, Op: &op}); err != nil {
				return err
			}
		}
		if err := do(Step{A: "sync", C: "c1", D: d}); err != nil {
			return err
		}
		for _, c := range w.Order[1:] {
			if err := do(Step{A: "attach", C: c, D: d}); err != nil {
				return err
			}
		}
		if err := do(Step{A: "sync", C: "c1", D: d}); err != nil {
			return err
		}
	}
	for _, st := range b.Steps {
		if err := do(st); err != nil {
			return err
		}
	}
	if b.Final == "quiesce" {
		// two full rounds deliver everything to everyone; a third lets the
		// minimum version vector pass every tombstone.
		for round := 0; round < 3; round++ {
			for _, c := range w.Order {
				for _, d := range b.Docs {
					cl := w.Clients[c]
					if r, ok := cl.Docs[d]; ok && cl.Active && r.D.Status() == document.StatusAttached {
						if err := do(Step{A: "sync", C: c, D: d}); err != nil {
							return err
						}
					}
				}
			}
		}
	}
	w.T.Emit(map[string]any{"ev": "End", "id": b.ID})
	return nil
}

func toAny(ss []string) []any {
	out := []any{}
	for _, s := range ss {
		out = append(out, s)
	}
	return out
}

// Step executes one step and emits its events.
func (w *World) Step(no int, st Step, b *Behaviour) error {
	c := w.Clients[st.C]
	ev := map[string]any{"ev": "", "step": no, "c": st.C, "d": st.D, "ok": true, "err": "", "sess": 0}
	var rep *Rep
	if c != nil {
		rep = c.Docs[st.D]
		if rep != nil {
			ev["sess"] = rep.Sess
		}
	}
	precond := func(cond bool, why string) bool {
		if !cond {
			ev["ev"] = "Skip"
			ev["what"] = st.A
			ev["why"] = why
			w.T.Emit(ev)
		}
		return cond
	}
	switch st.A {
	case "setupsync":
		// the first client builds the initial document (containers + initial
		// content, one change each) and pushes it
		if err := w.Step(no, Step{A: "setup", C: st.C, D: st.D}, b); err != nil {
			return err
		}
		for _, op := range b.Init {
			op := op
			if err := w.Step(no, Step{A: "edit", C: st.C, D: st.D, Op: &op, Opt: map[string]any{"setup": true}}, b); err != nil {
				return err
			}
		}
		return w.Step(no, Step{A: "sync", C: st.C, D: st.D}, b)
	case "attach":
		if !precond(c != nil && c.Active, "client not active") {
			return nil
		}
		if !precond(rep == nil || rep.D.Status() != document.StatusAttached, "already attached") {
			return nil
		}
		var dopts []document.Option
		var aopts []any
		gcoff, nopres := optBool(st.Opt, "gcoff"), optBool(st.Opt, "nopres")
		if gcoff {
			dopts = append(dopts, document.WithDisableGC())
			aopts = append(aopts, client.WithDisableGC())
		}
		if nopres {
			dopts = append(dopts, document.WithDisablePresence())
			aopts = append(aopts, client.WithDisablePresence())
		}
		if p := optStr(st.Opt, "pres"); p != "" {
			aopts = append(aopts, client.WithPresence(presence.Data{"p0": p}))
		}
		if rep != nil && !rep.Pre {
			rep.stop()
		}
		w.sessCtr[st.C+"/"+st.D]++
		if rep != nil && rep.Pre {
			// the instance was edited before its first attach
			rep.Pre, rep.Sess = false, w.sessCtr[st.C+"/"+st.D]
		} else {
			rep = &Rep{D: document.New(key.Key(w.DocKeys[st.D]), dopts...), Sess: w.sessCtr[st.C+"/"+st.D]}
		}
		rep.drainEvents()
		c.Docs[st.D] = rep
		err := c.C.Attach(w.Ctx, rep.D, aopts...)
		ev["ev"], ev["sess"] = "Attach", rep.Sess
		ev["gcoff"], ev["nopres"] = gcoff, nopres
		ev["ok"], ev["err"] = err == nil, errClass(err)
	case "setup":
		if !precond(rep != nil, "no replica") {
			return nil
		}
		err := SetupRoot(rep.D, b.Kinds)
		// the set-up is scaffolding, not part of the program whose edits undo/redo walk through
		_ = rep.D.ClearHistory()
		ev["ev"] = "Edit"
		ev["op"] = map[string]any{"k": "setup"}
		ev["outcome"] = "ok"
		ev["args"] = map[string]any{}
		ev["ok"], ev["err"] = err == nil, errClass(err)
	case "edit":
		if !precond(rep != nil && rep.D.Status() != document.StatusRemoved, "no replica") {
			return nil
		}
		w.sessCtr["op/"+st.C]++
		base := (int(st.C[1]-'0'))*100 + w.sessCtr["op/"+st.C]
		cont := opContainer(st.Op.K)
		pre, preok := APIView(rep.D, cont)
		res := ApplyOp(rep.D, *st.Op, base, optStr(st.Opt, "fail"))
		if optBool(st.Opt, "setup") {
			_ = rep.D.ClearHistory()
		}
		post, postok := APIView(rep.D, cont)
		dv, dvok := DocView(rep.D, cont)
		if preok && postok && dvok && cont != "" {
			ev["sem"] = map[string]any{"t": cont, "pre": pre, "post": post, "doc": dv}
		}
		ev["ev"] = "Edit"
		ev["op"] = map[string]any{"k": st.Op.K, "a": st.Op.A, "b": st.Op.B, "v": st.Op.V}
		ev["outcome"], ev["args"] = res.Outcome, res.Args
		ev["fail"] = optStr(st.Opt, "fail")
		ev["ok"], ev["err"] = res.Outcome == "ok" || res.Outcome == "skip", res.Err
	case "undo", "redo":
		if !precond(rep != nil && rep.D.Status() != document.StatusRemoved, "no replica") {
			return nil
		}
		var err error
		func() {
			defer func() {
				if p := recover(); p != nil {
					err = fmt.Errorf("PANIC:%v", p)
				}
			}()
			if st.A == "undo" {
				err = rep.D.Undo()
			} else {
				err = rep.D.Redo()
			}
		}()
		ev["ev"] = strings.ToUpper(st.A[:1]) + st.A[1:]
		ev["ok"], ev["err"] = err == nil, errClass(err)
		ev["guard"] = ""
		if err != nil && Guards && strings.Contains(err.Error(), "child not found") {
			// KF-UNDO-ANCHOR-PURGED: the reverse operation names an array
			// element or anchor that a peer removed and GC purged. Listed
			// known finding, identified by this call site and error.
			ev["ok"], ev["guard"] = true, "KF-UNDO-ANCHOR-PURGED"
		}
	case "sync":
		if !precond(c != nil && rep != nil && rep.D.Status() == document.StatusAttached, "not attached") {
			return nil
		}
		opt := client.WithKey(rep.D.Key())
		if optBool(st.Opt, "pushonly") {
			opt = opt.WithPushOnly()
		}
		fault := optStr(st.Opt, "fault")
		if fault != "" {
			w.FaultDB().Arm(fault)
		}
		var err error
		func() {
			defer func() {
				if p := recover(); p != nil {
					err = fmt.Errorf("PANIC:%v", p)
				}
			}()
			err = c.C.Sync(w.Ctx, opt)
		}()
		ev["ev"] = "Sync"
		ev["pushonly"] = optBool(st.Opt, "pushonly")
		ev["ok"], ev["err"] = err == nil, errClass(err)
		ev["fault"], ev["fired"] = fault, false
		if fault != "" {
			ev["fired"] = !w.FaultDB().Disarm()
		}
	case "detach":
		if !precond(c != nil && rep != nil && rep.D.Status() == document.StatusAttached, "not attached") {
			return nil
		}
		var err error
		func() {
			defer func() {
				if p := recover(); p != nil {
					err = fmt.Errorf("PANIC:%v", p)
				}
			}()
			err = c.C.Detach(w.Ctx, rep.D)
		}()
		ev["ev"] = "Detach"
		ev["ok"], ev["err"] = err == nil, errClass(err)
	case "remove":
		if !precond(c != nil && rep != nil && rep.D.Status() == document.StatusAttached, "not attached") {
			return nil
		}
		err := c.C.Remove(w.Ctx, rep.D)
		ev["ev"] = "Remove"
		ev["ok"], ev["err"] = err == nil, errClass(err)
	case "deactivate":
		if !precond(c != nil && c.Active, "not active") {
			return nil
		}
		err := c.C.Deactivate(w.Ctx)
		if err == nil {
			c.Active = false
		}
		ev["ev"] = "Deactivate"
		ev["ok"], ev["err"] = err == nil, errClass(err)
	case "activate":
		if !precond(c != nil && !c.Active, "already active") {
			return nil
		}
		err := c.C.Activate(w.Ctx)
		if err == nil {
			c.Active = true
			delete(w.actors, c.Actor)
			c.Actor = c.C.ID().String()
			w.actors[c.Actor] = c.Name
		}
		ev["ev"] = "Activate"
		ev["ok"], ev["err"] = err == nil, errClass(err)
	case "compact":
		if !precond(!w.dedupCounted(st.D), "guard KF-DEDUP-STATE-IN-OPERATION") {
			return nil
		}
		err := w.S.Y.CompactDocument(w.Ctx, key.Key(w.DocKeys[st.D]), optBool(st.Opt, "force"))
		ev["ev"] = "Compact"
		ev["force"] = optBool(st.Opt, "force")
		ev["ok"], ev["err"] = err == nil, errClass(err)
		if info := w.docInfoOf(st.D); info != nil {
			ev["seq"], ev["epoch"] = info.ServerSeq, info.Epoch
			rows := []any{}
			infos, _ := w.S.Be.DB.FindChangeInfosBetweenServerSeqs(w.Ctx, info.RefKey(), 1, math.MaxInt64)
			for _, ci := range infos {
				rows = append(rows, w.infoSummary(ci))
			}
			ev["rows"] = rows
		} else {
			ev["seq"], ev["epoch"], ev["rows"] = 0, 0, []any{}
		}
	case "preedit":
		// edits on a document instance that has not been attached yet (the SDK allows it): a container of the
		// client's own plus two dependent edits. Only used by reproducers of known findings.
		if !precond(c != nil && (rep == nil || rep.Pre), "already attached once") {
			return nil
		}
		if rep == nil {
			rep = &Rep{D: document.New(key.Key(w.DocKeys[st.D])), Pre: true}
			rep.drainEvents()
			c.Docs[st.D] = rep
		}
		name := "pre" + st.C
		err := rep.D.Update(func(r *json.Object, p *presence.Presence) error {
			r.SetNewText(name).Edit(0, 0, "ab")
			return nil
		})
		if err == nil {
			err = rep.D.Update(func(r *json.Object, p *presence.Presence) error {
				r.GetText(name).Edit(1, 1, "X")
				return nil
			})
		}
		w.captureChanges(st.D, rep)
		ev["ev"] = "Pre"
		ev["ok"], ev["err"] = err == nil, errClass(err)
		w.T.Emit(ev)
		return nil
	case "revision":
		info := w.docInfoOf(st.D)
		if !precond(info != nil, "no doc") {
			return nil
		}
		rev, err := revisions.Create(w.Ctx, w.S.Be, info.RefKey(), fmt.Sprintf("rev-%d", no), "")
		ev["ev"] = "Revision"
		ev["ok"], ev["err"] = err == nil, errClass(err)
		if err == nil {
			if w.revs == nil {
				w.revs = map[string]types.ID{}
			}
			w.revs[st.D] = rev.ID
		}
	case "restore":
		id, have := w.revs[st.D]
		if !precond(have, "no revision") {
			return nil
		}
		if !precond(!w.dedupCounted(st.D), "guard KF-DEDUP-STATE-IN-OPERATION") {
			return nil
		}
		err := revisions.Restore(w.Ctx, w.S.Be, w.Project, id)
		ev["ev"] = "Restore"
		ev["ok"], ev["err"] = err == nil, errClass(err)
	case "build":
		info := w.docInfoOf(st.D)
		if !precond(info != nil, "no doc") {
			return nil
		}
		seq := info.ServerSeq - int64(st.N)
		if seq < 0 {
			seq = 0
		}
		doc, err := packs.BuildInternalDocForServerSeq(w.Ctx, w.S.Be, info, seq)
		ev["ev"] = "Build"
		ev["s"], ev["epoch"] = seq, info.Epoch
		ev["ok"], ev["err"] = err == nil, errClass(err)
		ev["content"], ev["pres"] = "", ""
		if err == nil {
			ev["content"] = doc.Marshal()
			ev["pres"] = w.PresString(doc.AllPresences())
		}
	case "evict":
		info := w.docInfoOf(st.D)
		if !precond(info != nil, "no doc") {
			return nil
		}
		w.S.Be.Cache.Snapshot.Remove(info.RefKey())
		ev["ev"] = "Evict"
	default:
		return fmt.Errorf("unknown step action %q", st.A)
	}
	if rep != nil && (st.A == "edit" || st.A == "setup" || st.A == "undo" || st.A == "redo") {
		w.captureChanges(st.D, rep)
	}
	// server-side events first (they happened before the call returned)
	if err := w.emitHooks(no, st.A); err != nil {
		return err
	}
	if c != nil {
		if r := c.Docs[st.D]; r != nil {
			ev["rep"] = w.RepState(c, st.D)
		}
	}
	w.T.Emit(ev)
	return w.feedRefs(no)
}

var _ = json.NewObject

// dedupCounted: known finding KF-DEDUP-STATE-IN-OPERATION - the document holds a dedup
// counter that has counted at least one actor (its state does not survive a SetYSON rebuild).
func (w *World) dedupCounted(d string) bool {
	if !Guards {
		return false
	}
	ref := w.refs[d]
	if ref == nil || ref.Doc == nil {
		return false
	}
	c, ok := ref.Doc.RootObject().Get(KDedup).(*crdt.Counter)
	return ok && c.IsDedup() && c.Marshal() != "0"
}

// origChange finds the original in-memory change object of a stored row.
func (w *World) origChange(d string, stored *change.Change) *change.Change {
	k := fmt.Sprintf("%s/%s/%d/%d", d, stored.ID().ActorID().String(), stored.ID().ClientSeq(), stored.ID().Lamport())
	return w.orig[k]
}

// captureChanges remembers the pending change objects of a replica.
func (w *World) captureChanges(d string, rep *Rep) {
	if w.orig == nil {
		w.orig = map[string]*change.Change{}
	}
	for _, c := range rep.D.CreateChangePack().Changes {
		k := fmt.Sprintf("%s/%s/%d/%d", d, c.ID().ActorID().String(), c.ID().ClientSeq(), c.ID().Lamport())
		if _, ok := w.orig[k]; !ok {
			w.orig[k] = c
		}
	}
}

// SnapshotRoundTrip encodes and decodes the document as a snapshot.
func SnapshotRoundTrip(doc *document.InternalDocument) (ok bool, content string, garbage int, errs string) {
	defer func() {
		if p := recover(); p != nil {
			ok, errs = false, fmt.Sprintf("PANIC:%v", p)
		}
	}()
	bs, err := converter.SnapshotToBytes(doc.RootObject(), doc.AllPresences())
	if err != nil {
		return false, "", 0, err.Error()
	}
	obj, _, err := converter.BytesToSnapshot(bs)
	if err != nil {
		return false, "", 0, err.Error()
	}
	return true, obj.Marshal(), crdt.NewRoot(obj).GarbageLen(), ""
}

// FaultDB installs (once) and returns the fault-injecting database decorator.
func (w *World) FaultDB() *FaultDB {
	if f, ok := w.S.Be.DB.(*FaultDB); ok {
		return f
	}
	f := &FaultDB{Database: w.S.Be.DB}
	w.S.Be.DB = f
	return f
}
