package world

import (
	"context"
	"fmt"
	"sync"

	"github.com/yorkie-team/yorkie/api/types"
	"github.com/yorkie-team/yorkie/pkg/document/change"
	"github.com/yorkie-team/yorkie/pkg/document/time"
	"github.com/yorkie-team/yorkie/server/backend/database"
)

// FaultDB decorates the server's database (Backend.DB is an exported
// interface field) and fails ONE armed call of a PushPull either before it
// took effect or after it did (C05: every storage call a PushPull makes).
type FaultDB struct {
	database.Database
	mu    sync.Mutex
	armed string // "<Method>:<before|after>" or ""
	Fired int
}

// ErrInjected is the injected storage failure.
var ErrInjected = fmt.Errorf("injected storage fault")

// Arm arms one fault.
func (f *FaultDB) Arm(point string) { f.mu.Lock(); f.armed = point; f.mu.Unlock() }

// Disarm removes the armed fault and reports whether it was still pending.
func (f *FaultDB) Disarm() bool {
	f.mu.Lock()
	defer f.mu.Unlock()
	p := f.armed != ""
	f.armed = ""
	return p
}

func (f *FaultDB) hit(point string) bool {
	f.mu.Lock()
	defer f.mu.Unlock()
	if f.armed == point {
		f.armed = ""
		f.Fired++
		return true
	}
	return false
}

// CreateChangeInfos implements database.Database.
func (f *FaultDB) CreateChangeInfos(ctx context.Context, refKey types.DocRefKey, cp change.Checkpoint,
	changes []*database.ChangeInfo, isRemoved bool) (*database.DocInfo, change.Checkpoint, error) {
	if f.hit("CreateChangeInfos:before") {
		return nil, change.InitialCheckpoint, ErrInjected
	}
	d, c, err := f.Database.CreateChangeInfos(ctx, refKey, cp, changes, isRemoved)
	if err == nil && f.hit("CreateChangeInfos:after") {
		return nil, change.InitialCheckpoint, ErrInjected
	}
	return d, c, err
}

// FindChangeInfosBetweenServerSeqs implements database.Database.
func (f *FaultDB) FindChangeInfosBetweenServerSeqs(ctx context.Context, refKey types.DocRefKey, from, to int64) ([]*database.ChangeInfo, error) {
	if f.hit("FindChangeInfosBetweenServerSeqs:before") {
		return nil, ErrInjected
	}
	return f.Database.FindChangeInfosBetweenServerSeqs(ctx, refKey, from, to)
}

// UpdateMinVersionVector implements database.Database.
func (f *FaultDB) UpdateMinVersionVector(ctx context.Context, ci *database.ClientInfo, refKey types.DocRefKey,
	vv time.VersionVector) (time.VersionVector, error) {
	if f.hit("UpdateMinVersionVector:before") {
		return nil, ErrInjected
	}
	v, err := f.Database.UpdateMinVersionVector(ctx, ci, refKey, vv)
	if err == nil && f.hit("UpdateMinVersionVector:after") {
		return nil, ErrInjected
	}
	return v, err
}

// UpdateClientInfoAfterPushPull implements database.Database.
func (f *FaultDB) UpdateClientInfoAfterPushPull(ctx context.Context, ci *database.ClientInfo, di *database.DocInfo) error {
	if f.hit("UpdateClientInfoAfterPushPull:before") {
		return ErrInjected
	}
	err := f.Database.UpdateClientInfoAfterPushPull(ctx, ci, di)
	if err == nil && f.hit("UpdateClientInfoAfterPushPull:after") {
		return ErrInjected // everything is stored, the client never sees the response (lost response)
	}
	return err
}
