package world

import (
	"fmt"
	"math"
	"strings"

	"github.com/yorkie-team/yorkie/pkg/document"
	"github.com/yorkie-team/yorkie/pkg/document/change"
	"github.com/yorkie-team/yorkie/pkg/key"
)

// ReqDef is one concurrent request of a scenario.
type ReqDef struct {
	C    string `json:"c"`
	Kind string `json:"kind"` // sync | detach | compact | cdetach
}

// Scenario is a set of concurrent requests + a schedule (behaviour of YorkieFG.tla).
type Scenario struct {
	Behaviour
	Pre      []Step            `json:"pre"`
	Reqs     map[string]ReqDef `json:"reqs"`
	Schedule []string          `json:"schedule"`
	// Edits made by a client while requests are in flight: "e:c1" entries in the
	// schedule execute the next op of PhaseOps[c1].
	PhaseOps map[string][]Op `json:"phaseops"`
}

func lockKind(k string) string {
	switch {
	case strings.HasPrefix(k, "doc-push-"):
		return "push"
	case strings.HasPrefix(k, "doc-pull-"):
		return "pull"
	case strings.HasPrefix(k, "doc-attachment"):
		return "attach"
	case strings.HasPrefix(k, "snapshot-"):
		return "snapshot"
	case strings.HasPrefix(k, "doc-"):
		return "doc"
	}
	return "other"
}

// RunGates executes a scenario: sequential set-up and pre-steps, then the
// concurrent phase under the gate scheduler, then a quiescent round.
func (w *World) RunGates(sc *Scenario, sched *Sched) (err error) {
	b := &sc.Behaviour
	if err := w.SetProjectSnapshot(b.Threshold, b.Interval); err != nil {
		return err
	}
	w.T.Emit(map[string]any{
		"ev": "Init", "id": b.ID, "family": b.Family, "clients": toAny(w.Order), "docs": toAny(b.Docs),
		"threshold": w.Project.SnapshotThreshold, "interval": w.Project.SnapshotInterval,
		"snapgcoff": w.S.Opts.SnapshotDisableGC,
	})
	stepNo := 0
	do := func(st Step) error {
		stepNo++
		return w.Step(stepNo, st, b)
	}
	d := b.Docs[0]
	if err := do(Step{A: "attach", C: "c1", D: d}); err != nil {
		return err
	}
	if err := do(Step{A: "setupsync", C: "c1", D: d}); err != nil {
		return err
	}
	for _, c := range w.Order[1:] {
		if err := do(Step{A: "attach", C: c, D: d}); err != nil {
			return err
		}
	}
	for round := 0; round < 2; round++ {
		for _, c := range w.Order {
			if err := do(Step{A: "sync", C: c, D: d}); err != nil {
				return err
			}
		}
	}
	for _, st := range sc.Pre {
		if err := do(st); err != nil {
			return err
		}
	}
	// ---- concurrent phase
	stepNo++
	raw := NewRaw(w.S.Addr, w.APIKey)
	w.H.RecordLocks = true
	w.H.Gate = sched.Gate
	sched.Enable()
	started := map[string]bool{}
	applied := map[string]bool{}
	latest := map[string]string{}
	packs := map[string]*change.Pack{}
	errs := map[string]error{}
	opIdx := map[string]int{}
	var drift []string
	apply := func(r string) {
		def := sc.Reqs[r]
		if applied[r] || def.Kind != "sync" {
			return
		}
		applied[r] = true
		c := w.Clients[def.C]
		rep := c.Docs[d]
		data := map[string]any{"rid": r, "c": def.C, "d": d, "ok": true, "err": "", "sess": rep.Sess, "skipped": false}
		if latest[def.C] != r || errs[r] != nil || packs[r] == nil {
			// a superseded (retried) request: its response is dropped by the client
			data["skipped"] = true
			if errs[r] != nil && latest[def.C] == r {
				data["ok"], data["err"] = false, errClass(errs[r])
			}
		} else {
			var err error
			func() {
				defer func() {
					if p := recover(); p != nil {
						err = fmt.Errorf("PANIC:%v", p)
					}
				}()
				err = rep.D.ApplyChangePack(packs[r])
			}()
			data["ok"], data["err"] = err == nil, errClass(err)
		}
		data["rep"] = w.RepState(c, d)
		w.H.Mark("apply", data)
	}
	for _, ent := range sc.Schedule {
		if strings.HasPrefix(ent, "e:") {
			// a local edit while requests are in flight
			cn := ent[2:]
			ops := sc.PhaseOps[cn]
			if opIdx[cn] < len(ops) {
				op := ops[opIdx[cn]]
				opIdx[cn]++
				rep := w.Clients[cn].Docs[d]
				res := ApplyOp(rep.D, op, 900+opIdx[cn], "")
				w.captureChanges(d, rep)
				w.H.Mark("edit", map[string]any{"c": cn, "d": d, "sess": rep.Sess, "op": map[string]any{"k": op.K, "a": op.A, "b": op.B, "v": op.V},
					"outcome": res.Outcome, "args": res.Args, "ok": res.Outcome == "ok" || res.Outcome == "skip", "err": res.Err,
					"rep": w.RepState(w.Clients[cn], d)})
			}
			continue
		}
		r := ent
		def, ok := sc.Reqs[r]
		if !ok {
			return fmt.Errorf("schedule names unknown request %s", r)
		}
		if !started[r] {
			started[r] = true
			var call func() error
			switch def.Kind {
			case "sync", "detach":
				c := w.Clients[def.C]
				rep := c.Docs[d]
				pack := rep.D.CreateChangePack()
				actor, docID := c.Actor, rep.DocID.String()
				latest[def.C] = r
				kind := def.Kind
				w.H.Mark("send", map[string]any{"rid": r, "c": def.C, "kind": kind})
				call = func() error {
					var p *change.Pack
					var err error
					if kind == "sync" {
						p, err = raw.PushPull(w.Ctx, actor, docID, pack, false)
					} else {
						p, err = raw.Detach(w.Ctx, actor, docID, pack)
					}
					packs[r], errs[r] = p, err
					return err
				}
			case "compact":
				call = func() error {
					err := w.S.Y.CompactDocument(w.Ctx, key.Key(w.DocKeys[d]), true)
					errs[r] = err
					// no other request moves while this one takes its step, so the
					// store is read exactly as the compaction left it
					ev := map[string]any{"d": d, "force": true, "ok": err == nil, "err": errClass(err), "seq": 0, "epoch": 0, "rows": []any{}}
					if info := w.docInfoOf(d); info != nil {
						ev["seq"], ev["epoch"] = info.ServerSeq, info.Epoch
						rows := []any{}
						infos, _ := w.S.Be.DB.FindChangeInfosBetweenServerSeqs(w.Ctx, info.RefKey(), 1, math.MaxInt64)
						for _, ci := range infos {
							rows = append(rows, w.infoSummary(ci))
						}
						ev["rows"] = rows
					}
					w.H.Mark("compact", ev)
					return err
				}
			case "cdetach":
				c := w.Clients[def.C]
				call = func() error {
					err := w.S.Y.DeactivateClient(w.Ctx, c.C)
					errs[r] = err
					if err == nil {
						c.Active = false
					}
					w.H.Mark("deactivate", map[string]any{"c": c.Name, "d": d, "ok": err == nil, "err": errClass(err)})
					return err
				}
			default:
				return fmt.Errorf("unknown request kind %s", def.Kind)
			}
			at, err := sched.Start(r, call)
			if err != nil {
				drift = append(drift, fmt.Sprintf("start %s: %v", r, err))
			}
			_ = at
			continue
		}
		if sched.Where(r) == "done" {
			apply(r)
			continue
		}
		if got := sched.Step(r); got == "blocked" {
			drift = append(drift, fmt.Sprintf("step %s blocked at %s", r, sched.Where(r)))
		}
	}
	// ---- end of the schedule: let everything finish
	blockedAtEnd := []string{}
	sched.ReleaseAll()
	for r := range started {
		if _, ok := sched.WaitDone(r); !ok {
			blockedAtEnd = append(blockedAtEnd, r+"@"+sched.Where(r))
		}
	}
	for _, r := range sortedStrings(started) {
		apply(r)
	}
	w.H.Gate = nil
	if err := w.emitPhase(stepNo, sc, sched, drift, blockedAtEnd); err != nil {
		return err
	}
	w.H.RecordLocks = false
	if len(blockedAtEnd) == 0 {
		if err := w.feedRefs(stepNo); err != nil {
			return err
		}
		for round := 0; round < 3; round++ {
			for _, c := range w.Order {
				cl := w.Clients[c]
				if r, ok := cl.Docs[d]; ok && cl.Active && r.D.Status() == document.StatusAttached {
					if err := do(Step{A: "sync", C: c, D: d}); err != nil {
						return err
					}
				}
			}
		}
	}
	w.T.Emit(map[string]any{"ev": "End", "id": b.ID})
	if len(blockedAtEnd) > 0 {
		// requests are blocked for good: this server cannot be used any more
		w.Poisoned = true
	}
	return nil
}

func sortedStrings(m map[string]bool) []string {
	var ks []string
	for k := range m {
		ks = append(ks, k)
	}
	for i := range ks {
		for j := i + 1; j < len(ks); j++ {
			if ks[j] < ks[i] {
				ks[i], ks[j] = ks[j], ks[i]
			}
		}
	}
	return ks
}

// emitPhase converts the ordered hook buffer of the concurrent phase to trace events.
func (w *World) emitPhase(step int, sc *Scenario, sched *Sched, drift, blocked []string) error {
	if len(blocked) == 0 {
		if err := w.H.WaitBG(); err != nil {
			return err
		}
	}
	evs := w.H.Drain()
	d := sc.Docs[0]
	open := map[int64]map[string]any{}
	// a goroutine may serve several requests one after the other: the request a
	// hook event belongs to is the one bound to its goroutine at that time; the
	// events of one goroutine are in order, and each request ends with pp.exit /
	// its last lock.released, so the bindings of a goroutine are consumed in order
	bindsOf := map[int64][]string{}
	for _, b := range sched.binds {
		bindsOf[b.gid] = append(bindsOf[b.gid], b.rid)
	}
	cur := map[int64]int{}
	heldN := map[int64]int{}
	rid := func(g int64) string {
		bs := bindsOf[g]
		if cur[g] < len(bs) {
			return bs[cur[g]]
		}
		return ""
	}
	clone := func(m map[string]any) map[string]any {
		o := map[string]any{}
		for k, v := range m {
			o[k] = v
		}
		return o
	}
	for _, he := range evs {
		data := he.Data
		switch he.Point {
		case "lock.wait", "lock.acquired", "lock.released":
			w.T.Emit(map[string]any{"ev": "L", "step": step, "gid": he.GID, "rid": rid(he.GID), "op": he.Point[5:],
				"lock": lockKind(fmt.Sprint(data["key"])), "mode": data["mode"], "d": d})
			if he.Point == "lock.acquired" {
				heldN[he.GID]++
			}
			if he.Point == "lock.released" {
				heldN[he.GID]--
				if heldN[he.GID] == 0 {
					cur[he.GID]++ // the handler is returning: the next events of this goroutine belong to its next request
				}
			}
		case "pp.enter":
			cname := data["client"].(string)
			sess := 0
			if c, ok := w.Clients[cname]; ok {
				if r, ok := c.Docs[d]; ok {
					sess = r.Sess
				}
			}
			rpc := "sync"
			if def, ok := sc.Reqs[rid(he.GID)]; ok && def.Kind != "sync" {
				rpc = def.Kind
			}
			open[he.GID] = map[string]any{
				"ev": "PP", "step": step, "rpc": rpc, "c": cname, "d": d, "sess": sess, "gid": he.GID, "rid": rid(he.GID),
				"req": data["req"], "status": data["status"], "pushonly": data["pushonly"],
				"gcoff": data["gcoff"], "nopres": data["nopres"], "ci": data["ci"],
				"rows": []any{}, "created": false, "seq": 0, "epoch": 0, "cpc": 0, "vvset": false, "concurrent": true,
				"init": -1, "hasmin": false, "min": map[string]any{}, "docremoved": false, "nopresdoc": false,
				"ok": false, "err": "", "res": map[string]any{"cp": []any{0, 0}, "pulled": []any{}, "snap": false,
					"hasvv": false, "vv": map[string]any{}, "removed": false, "snappres": ""},
			}
		case "pp.create.after":
			if pp := open[he.GID]; pp != nil {
				pp["rows"], pp["seq"], pp["epoch"], pp["cpc"] = data["rows"], data["seq"], data["epoch"], data["cpc"]
				pp["created"] = true
				pp["docremoved"], pp["nopresdoc"] = data["removed"], data["nopresdoc"]
				e := clone(pp)
				e["ev"] = "PPC"
				w.T.Emit(e)
			}
		case "pp.pull.after":
			if pp := open[he.GID]; pp != nil {
				pp["init"] = data["init"]
			}
		case "db.vv.between":
			if pp := open[he.GID]; pp != nil {
				pp["vvset"] = true
				e := clone(pp)
				e["ev"] = "VV"
				w.T.Emit(e)
			}
		case "pp.vv.after":
			if pp := open[he.GID]; pp != nil {
				pp["min"], pp["hasmin"] = data["min"], true
			}
		case "pp.exit":
			if pp := open[he.GID]; pp != nil {
				pp["err"] = data["err"]
				if res, ok := data["res"]; ok {
					pp["ok"], pp["res"] = true, res
				}
				e := clone(pp)
				e["ev"] = "PPR"
				w.T.Emit(e)
				delete(open, he.GID)
			}
		case "apply":
			e := clone(data)
			e["ev"], e["step"] = "Sync", step
			if data["skipped"] == true {
				e["ev"] = "Dropped"
			}
			w.T.Emit(e)
		case "edit":
			e := clone(data)
			e["ev"], e["step"], e["fail"] = "Edit", step, ""
			w.T.Emit(e)
		case "compact":
			e := clone(data)
			e["ev"], e["step"], e["concurrent"] = "Compact", step, true
			w.T.Emit(e)
		case "deactivate":
			e := clone(data)
			e["ev"], e["step"], e["sess"] = "Deactivate", step, 0
			w.T.Emit(e)
		}
	}
	w.T.Emit(map[string]any{"ev": "Phase", "step": step, "d": d, "drift": toAny(drift), "blocked": toAny(blocked),
		"schedule": toAny(sc.Schedule)})
	return nil
}

// LockKind classifies a locker key (doc, pull, attach, push, snapshot, other).
func LockKind(k string) string { return lockKind(k) }
