package world

import (
	"context"
	"fmt"
	"net/http"
	"sync"
	gotime "time"

	"connectrpc.com/connect"

	"github.com/yorkie-team/yorkie/api/converter"
	api "github.com/yorkie-team/yorkie/api/yorkie/v1"
	"github.com/yorkie-team/yorkie/api/yorkie/v1/v1connect"
	"github.com/yorkie-team/yorkie/client"
	"github.com/yorkie-team/yorkie/pkg/document"
	"github.com/yorkie-team/yorkie/pkg/document/change"
	"github.com/yorkie-team/yorkie/pkg/key"
)

// Mechanism S of DESIGN.md: gate-controlled schedules. Every gate hook parks
// its goroutine until the scheduler lets the request it belongs to take one
// step (run to its next gate). A behaviour of YorkieFG.tla - a sequence of
// request ids - is thereby forced on the real server.

var gatePoints = map[string]bool{
	"lock.wait": true, "pp.enter": true, "pp.create.before": true, "pp.create.after": true,
	"pp.pull.before": true, "pp.pull.after": true, "pp.vv.before": true, "db.vv.between": true,
	"pp.vv.after": true, "pp.save.before": true, "pp.save.after": true, "pp.exit": true,
}

type parked struct {
	point string
	key   string
	ch    chan struct{}
}

// Sched is the gate scheduler.
type Sched struct {
	mu      sync.Mutex
	cond    *sync.Cond
	on      bool
	parked  map[int64]*parked // goroutine -> where it is parked
	reqOf   map[int64]string  // goroutine -> request id
	gidOf   map[string]int64
	free    map[int64]bool // background goroutines run free
	done    map[string]bool
	result  map[string]error
	Timeout gotime.Duration
	ridLog  []ridSpan
	binds   []bindRec // order in which goroutines were bound to requests
}

type ridSpan struct {
	gid int64
	rid string
}

type bindRec struct {
	gid int64
	rid string
	seq int
}

// NewSched creates a scheduler (off until Enable).
func NewSched() *Sched {
	s := &Sched{parked: map[int64]*parked{}, reqOf: map[int64]string{}, gidOf: map[string]int64{},
		free: map[int64]bool{}, done: map[string]bool{}, result: map[string]error{}, Timeout: 8 * gotime.Second}
	s.cond = sync.NewCond(&s.mu)
	return s
}

// Gate is installed as Hooks.Gate.
func (s *Sched) Gate(ev HookEvent) {
	s.mu.Lock()
	if !s.on {
		s.mu.Unlock()
		return
	}
	if ev.Point == "bg.start" {
		s.free[ev.GID] = true
	}
	if !gatePoints[ev.Point] || s.free[ev.GID] {
		s.mu.Unlock()
		return
	}
	p := &parked{point: ev.Point, ch: make(chan struct{})}
	if ev.Point == "lock.wait" && len(ev.KV) > 0 {
		p.key, _ = ev.KV[0].(string)
	}
	s.parked[ev.GID] = p
	s.cond.Broadcast()
	s.mu.Unlock()
	<-p.ch
}

// Enable switches gating on.
func (s *Sched) Enable() { s.mu.Lock(); s.on = true; s.mu.Unlock() }

// ReleaseAll switches gating off and lets everything run.
func (s *Sched) ReleaseAll() {
	s.mu.Lock()
	s.on = false
	for g, p := range s.parked {
		close(p.ch)
		delete(s.parked, g)
	}
	s.mu.Unlock()
}

func (s *Sched) waitUntil(cond func() bool) bool {
	deadline := gotime.Now().Add(s.Timeout)
	timer := gotime.AfterFunc(s.Timeout, func() { s.mu.Lock(); s.cond.Broadcast(); s.mu.Unlock() })
	defer timer.Stop()
	for !cond() {
		if gotime.Now().After(deadline) {
			return false
		}
		s.cond.Wait()
	}
	return true
}

// Start launches a request and waits until its handler goroutine parks at its
// first gate (or the call returns without reaching one).
func (s *Sched) Start(id string, call func() error) (string, error) {
	s.mu.Lock()
	defer s.mu.Unlock()
	known := map[int64]bool{}
	for g := range s.parked {
		known[g] = true
	}
	go func() {
		err := call()
		s.mu.Lock()
		s.done[id], s.result[id] = true, err
		// the HTTP/2 server may run the next handler on the same goroutine
		if g, ok := s.gidOf[id]; ok {
			s.ridLog = append(s.ridLog, ridSpan{g, id})
			delete(s.reqOf, g)
		}
		s.cond.Broadcast()
		s.mu.Unlock()
	}()
	var found int64 = -1
	ok := s.waitUntil(func() bool {
		if s.done[id] {
			return true
		}
		for g := range s.parked {
			if !known[g] {
				if _, bound := s.reqOf[g]; !bound {
					found = g
					return true
				}
			}
		}
		return false
	})
	if !ok {
		return "", fmt.Errorf("request %s did not reach a gate", id)
	}
	if s.done[id] {
		return "done", nil
	}
	s.reqOf[found] = id
	s.gidOf[id] = found
	s.binds = append(s.binds, bindRec{found, id, len(s.binds)})
	return s.parked[found].point, nil
}

// Step lets the request run to its next gate. Returns the gate it parked at,
// "done" when the call returned, or "blocked" when it did neither in time
// (really blocked inside a mutex).
func (s *Sched) Step(id string) string {
	s.mu.Lock()
	defer s.mu.Unlock()
	if s.done[id] {
		return "done"
	}
	g, ok := s.gidOf[id]
	if !ok {
		return "unknown"
	}
	p := s.parked[g]
	if p == nil {
		// it was blocked before; see whether it has arrived meanwhile
		if s.waitUntil(func() bool { return s.parked[g] != nil || s.done[id] }) {
			if s.done[id] {
				return "done"
			}
			return "arrived:" + s.parked[g].point
		}
		return "blocked"
	}
	delete(s.parked, g)
	close(p.ch)
	if !s.waitUntil(func() bool { return s.parked[g] != nil || s.done[id] }) {
		return "blocked"
	}
	if s.done[id] {
		return "done"
	}
	return s.parked[g].point
}

// Where reports the gate a request is parked at.
func (s *Sched) Where(id string) string {
	s.mu.Lock()
	defer s.mu.Unlock()
	if s.done[id] {
		return "done"
	}
	if p := s.parked[s.gidOf[id]]; p != nil {
		if p.key != "" {
			return p.point + ":" + p.key
		}
		return p.point
	}
	return "running"
}

// WaitDone waits for a request's call to return.
func (s *Sched) WaitDone(id string) (error, bool) {
	s.mu.Lock()
	defer s.mu.Unlock()
	ok := s.waitUntil(func() bool { return s.done[id] })
	return s.result[id], ok
}

// ---------------------------------------------------------------------------
// Raw protocol client: issues PushPullChanges / DetachDocument for a replica
// without the SDK's per-attachment mutex, so that a retry can overlap the
// original request, and returns the response pack without applying it.

// Raw is a raw Connect client of the Yorkie service.
type Raw struct {
	C v1connect.YorkieServiceClient
}

// NewRaw dials the server with the project's API key.
func NewRaw(addr, apiKey string) *Raw {
	return &Raw{C: v1connect.NewYorkieServiceClient(http.DefaultClient, "http://"+addr,
		connect.WithInterceptors(client.NewAuthInterceptor(apiKey, "")))}
}

// PushPull sends the given pack for the replica.
func (r *Raw) PushPull(ctx context.Context, actor string, docID string, pack *change.Pack, pushOnly bool) (*change.Pack, error) {
	pb, err := converter.ToChangePack(pack)
	if err != nil {
		return nil, err
	}
	res, err := r.C.PushPullChanges(ctx, connect.NewRequest(&api.PushPullChangesRequest{
		ClientId: actor, DocumentId: docID, ChangePack: pb, PushOnly: pushOnly}))
	if err != nil {
		return nil, err
	}
	return converter.FromChangePack(res.Msg.ChangePack)
}

// Detach sends a DetachDocument with the given pack.
func (r *Raw) Detach(ctx context.Context, actor string, docID string, pack *change.Pack) (*change.Pack, error) {
	pb, err := converter.ToChangePack(pack)
	if err != nil {
		return nil, err
	}
	res, err := r.C.DetachDocument(ctx, connect.NewRequest(&api.DetachDocumentRequest{
		ClientId: actor, DocumentId: docID, ChangePack: pb}))
	if err != nil {
		return nil, err
	}
	return converter.FromChangePack(res.Msg.ChangePack)
}

var _ = document.New
var _ = key.Key("")
