package world

import (
	"fmt"
	"unicode/utf16"

	"github.com/yorkie-team/yorkie/pkg/document"
	"github.com/yorkie-team/yorkie/pkg/document/crdt"
	"github.com/yorkie-team/yorkie/pkg/document/json"
	"github.com/yorkie-team/yorkie/pkg/document/presence"
)

// Op is one abstract editing operation of a generated behaviour. A, B are
// selectors resolved against the replica's actual visible state at execution
// time; V is an abstract value token.
type Op struct {
	K string `json:"k"`
	A int    `json:"a"`
	B int    `json:"b"`
	V int    `json:"v"`
}

// Container keys under the document root.
const (
	KObj   = "o"
	KArr   = "a"
	KText  = "t"
	KCnt   = "n"
	KDedup = "u" // a dedup counter (HyperLogLog of distinct actors)
	KTree  = "tr"
)

// Guards switches the known-finding trigger guards on: an operation that would
// exercise the trigger of a listed known finding (known-findings.json) is
// skipped (outcome "guard") so that the rest of the space is explored cleanly.
// The dedicated reproducers of the findings run with Guards off.
var Guards = true

// ExtraGuards are per-behaviour guards (Behaviour.Guards): finding ids whose
// trigger operations are skipped in this behaviour only.
var ExtraGuards = map[string]bool{}

var objKeys = []string{"k0", "k1", "k2"}

// text tokens: index by V mod len. Includes the empty string (pure deletion),
// a surrogate pair (2 UTF-16 units) and multi-unit strings.
var textTokens = []string{"", "a", "bc", "\U0001D11E", "deé", "Z"}

func mod(x, n int) int {
	if n <= 0 {
		return 0
	}
	x %= n
	if x < 0 {
		x += n
	}
	return x
}

// noSplit moves an index that falls between the two halves of a surrogate pair
// past the pair.
func noSplit(us []uint16, p int) int {
	if p > 0 && p < len(us) && us[p-1] >= 0xD800 && us[p-1] <= 0xDBFF && us[p] >= 0xDC00 && us[p] <= 0xDFFF {
		return p + 1
	}
	return p
}

func utf16Len(s string) int { return len(utf16.Encode([]rune(s))) }

// Resolved is what actually got executed.
type Resolved struct {
	Outcome string         // ok | skip | err | panic
	Err     string         //
	Args    map[string]any // resolved concrete arguments
}

// SetupRoot creates the containers the operation alphabet works on.
func SetupRoot(d *document.Document, kinds []string) error {
	return d.Update(func(r *json.Object, p *presence.Presence) error {
		for _, k := range kinds {
			switch k {
			case KObj:
				r.SetNewObject(KObj)
			case KArr:
				r.SetNewArray(KArr)
			case KText:
				r.SetNewText(KText)
			case KCnt:
				r.SetNewCounter(KCnt, 0)
			case KDedup:
				r.SetNewDedupCounter(KDedup)
			case KTree:
				r.SetNewTree(KTree, json.TreeNode{Type: "doc", Children: []json.TreeNode{
					{Type: "p", Children: []json.TreeNode{{Type: "text", Value: "ab"}}},
					{Type: "p", Children: []json.TreeNode{{Type: "text", Value: "cd"}}},
				}})
			}
		}
		return nil
	})
}

// uniq makes values distinguishable per (client, op number).
func uniq(base, v int) int { return base*100 + mod(v, 50) }

// ApplyOp executes op inside one Update on d. valBase makes produced values
// unique. failAfter>=0 makes the updater return an error after the operation
// ran (C08); panicAfter likewise with a panic.
func ApplyOp(d *document.Document, op Op, valBase int, fail string) (res Resolved) {
	res.Args = map[string]any{}
	skip := false
	guard := ""
	run := func(r *json.Object, p *presence.Presence) error {
		switch op.K {
		case "obj.set":
			o := r.GetObject(KObj)
			if o == nil {
				skip = true
				return nil
			}
			k := objKeys[mod(op.A, len(objKeys))]
			v := uniq(valBase, op.V)
			o.SetInteger(k, v)
			res.Args["key"], res.Args["val"] = k, v
		case "obj.sets":
			o := r.GetObject(KObj)
			if o == nil {
				skip = true
				return nil
			}
			k := objKeys[mod(op.A, len(objKeys))]
			v := fmt.Sprintf("s%d :)", uniq(valBase, op.V)) // a closing parenthesis: YSON export/import (compaction) must keep it
			o.SetString(k, v)
			res.Args["key"], res.Args["val"] = k, v
		case "obj.setobj":
			// a nested container at the key; V selects its type
			o := r.GetObject(KObj)
			if o == nil {
				skip = true
				return nil
			}
			k := objKeys[mod(op.A, len(objKeys))]
			v := uniq(valBase, op.V)
			switch mod(op.V, 4) {
			case 0, 2:
				o.SetNewObject(k).SetInteger("x", v)
				res.Args["type"] = "object"
			case 1:
				o.SetNewArray(k).AddInteger(v, v+1)
				res.Args["type"] = "array"
			case 3:
				o.SetNewCounter(k, v)
				res.Args["type"] = "counter"
			}
			res.Args["key"], res.Args["val"] = k, v
		case "obj.setin":
			// edit inside the nested container at the key, whatever it is
			o := r.GetObject(KObj)
			if o == nil {
				skip = true
				return nil
			}
			k := objKeys[mod(op.A, len(objKeys))]
			v := uniq(valBase, op.V)
			switch e := o.Get(k).(type) {
			case *crdt.Object:
				if mod(op.V, 2) == 0 || !e.Has("x") {
					o.GetObject(k).SetInteger("y", v)
				} else {
					o.GetObject(k).Delete("x")
				}
				res.Args["type"] = "object"
			case *crdt.Array:
				a := o.GetArray(k)
				if mod(op.V, 2) == 0 || a.Len() == 0 {
					a.AddInteger(v)
				} else {
					a.Delete(0)
				}
				res.Args["type"] = "array"
			case *crdt.Counter:
				o.GetCounter(k).Increase(mod(op.V, 5) + 1)
				res.Args["type"] = "counter"
			default:
				skip = true
				return nil
			}
			res.Args["key"], res.Args["val"] = k, v
		case "obj.del":
			o := r.GetObject(KObj)
			if o == nil {
				skip = true
				return nil
			}
			k := objKeys[mod(op.A, len(objKeys))]
			if !o.Has(k) {
				skip = true
				return nil
			}
			o.Delete(k)
			res.Args["key"] = k
		case "arr.add":
			a := r.GetArray(KArr)
			if a == nil {
				skip = true
				return nil
			}
			v := uniq(valBase, op.V)
			if a.Len() > 0 {
				res.Args["anchor"] = a.Get(a.Len() - 1).Marshal()
			}
			a.AddInteger(v)
			res.Args["val"] = v
		case "arr.ins":
			a := r.GetArray(KArr)
			if a == nil || a.Len() == 0 {
				skip = true
				return nil
			}
			i := mod(op.A, a.Len())
			v := uniq(valBase, op.V)
			res.Args["anchor"] = a.Get(i).Marshal()
			a.InsertIntegerAfter(i, v)
			res.Args["idx"], res.Args["val"] = i, v
		case "arr.del":
			a := r.GetArray(KArr)
			if a == nil || a.Len() == 0 {
				skip = true
				return nil
			}
			i := mod(op.A, a.Len())
			res.Args["deleted"] = a.Get(i).Marshal()
			a.Delete(i)
			res.Args["idx"] = i
		case "arr.mov":
			a := r.GetArray(KArr)
			if a == nil || a.Len() < 2 {
				skip = true
				return nil
			}
			i := mod(op.A, a.Len())
			j := mod(op.B, a.Len())
			if i == j {
				j = mod(j+1, a.Len())
			}
			res.Args["anchor"], res.Args["moved"] = a.Get(i).Marshal(), a.Get(j).Marshal()
			a.MoveAfterByIndex(i, j)
			res.Args["prev"], res.Args["target"] = i, j
		case "arr.movfront":
			a := r.GetArray(KArr)
			if a == nil || a.Len() < 2 {
				skip = true
				return nil
			}
			j := mod(op.B, a.Len())
			if j == 0 {
				j = 1
			}
			res.Args["moved"] = a.Get(j).Marshal()
			a.MoveFront(a.Get(j).CreatedAt())
			res.Args["target"] = j
		case "arr.movlast":
			a := r.GetArray(KArr)
			if a == nil || a.Len() < 2 {
				skip = true
				return nil
			}
			j := mod(op.B, a.Len()-1)
			res.Args["anchor"], res.Args["moved"] = a.Get(a.Len()-1).Marshal(), a.Get(j).Marshal()
			a.MoveLast(a.Get(j).CreatedAt())
			res.Args["target"] = j
		case "arr.set":
			a := r.GetArray(KArr)
			if a == nil || a.Len() == 0 {
				skip = true
				return nil
			}
			i := mod(op.A, a.Len())
			v := uniq(valBase, op.V)
			if Guards && ExtraGuards["KF-ARRAYSET-GC-LEAK"] {
				guard = "KF-ARRAYSET-GC-LEAK"
				return nil
			}
			if Guards && !ExtraGuards["no:KF-ARRAY-SET-MOVED"] && a.Get(i).MovedAt() != nil {
				// KF-ARRAY-SET-MOVED: Set on an element whose position was moved
				guard = "KF-ARRAY-SET-MOVED"
				return nil
			}
			res.Args["deleted"] = a.Get(i).Marshal()
			a.SetInteger(i, v)
			res.Args["idx"], res.Args["val"] = i, v
		case "txt.edit":
			t := r.GetText(KText)
			if t == nil {
				skip = true
				return nil
			}
			us := utf16.Encode([]rune(t.String()))
			n := len(us)
			from := mod(op.A, n+1)
			to := from + mod(op.B, n-from+1)
			// an index inside a surrogate pair is outside the API's domain
			// (a Go string cannot hold the resulting lone surrogate)
			from, to = noSplit(us, from), noSplit(us, to)
			s := textTokens[mod(op.V, len(textTokens))]
			// (s == "" && from == to is an edit that inserts and removes nothing: the API accepts it,
			// it occupies a clientSeq and a history entry, and its undo is a no-op)
			t.Edit(from, to, s)
			res.Args["from"], res.Args["to"], res.Args["s"] = from, to, s
			res.Args["units"] = units(s)
		case "txt.style":
			t := r.GetText(KText)
			if t == nil || utf16Len(t.String()) == 0 {
				skip = true
				return nil
			}
			us := utf16.Encode([]rune(t.String()))
			n := len(us)
			from := mod(op.A, n)
			to := from + 1 + mod(op.B, n-from)
			from, to = noSplit(us, from), noSplit(us, to)
			if from >= to {
				skip = true
				return nil
			}
			v := fmt.Sprintf("%d", mod(op.V, 3))
			t.Style(from, to, map[string]string{"b": v})
			res.Args["from"], res.Args["to"], res.Args["val"] = from, to, v
		case "dup.add":
			c := r.GetCounter(KDedup)
			if c == nil {
				skip = true
				return nil
			}
			a := fmt.Sprintf("visitor-%d", mod(op.V, 5))
			c.Add(a)
			res.Args["actor"] = a
		case "cnt.inc":
			c := r.GetCounter(KCnt)
			if c == nil {
				skip = true
				return nil
			}
			v := mod(op.V, 7) + 1
			switch op.V {
			case 100:
				v = 2147483647
			case 101:
				v = -2147483647
			case 102:
				v = -3
			}
			c.Increase(v)
			res.Args["val"] = v
		case "pres.set":
			k := fmt.Sprintf("p%d", mod(op.A, 2))
			v := fmt.Sprintf("%d", uniq(valBase, op.V))
			p.Set(k, v)
			res.Args["key"], res.Args["val"] = k, v
		case "tree.edit", "tree.style", "tree.rmstyle":
			return applyTreeOp(r, op, valBase, &res, &skip)
		default:
			return fmt.Errorf("unknown op kind %q", op.K)
		}
		return nil
	}
	func() {
		defer func() {
			if p := recover(); p != nil {
				res.Outcome = "panic"
				res.Err = fmt.Sprint(p)
			}
		}()
		err := d.Update(func(r *json.Object, p *presence.Presence) error {
			if err := run(r, p); err != nil {
				return err
			}
			switch fail {
			case "err":
				if !skip && guard == "" {
					return fmt.Errorf("injected updater failure")
				}
			case "panic":
				if !skip && guard == "" {
					panic("injected updater panic")
				}
			}
			return nil
		})
		if err != nil {
			res.Outcome = "err"
			res.Err = err.Error()
		} else if guard != "" {
			res.Outcome = "skip"
			res.Args["guard"] = guard
		} else if skip {
			res.Outcome = "skip"
		} else {
			res.Outcome = "ok"
		}
	}()
	return res
}

// applyTreeOp: structure-preserving tree edits on the tree at KTree:
// doc > p* > text. A selects the paragraph, B the offset inside it.
func applyTreeOp(r *json.Object, op Op, valBase int, res *Resolved, skip *bool) error {
	t := r.GetTree(KTree)
	if t == nil {
		*skip = true
		return nil
	}
	root := t.ToTreeNodeForTest()
	np := len(root.Children)
	switch op.K {
	case "tree.edit":
		// V mod 5: 0 insert text, 1 delete one char, 2 insert paragraph, 3 delete paragraph, 4 replace char
		mode := mod(op.V, 5)
		switch mode {
		case 0, 1, 4:
			if np == 0 {
				*skip = true
				return nil
			}
			pi := mod(op.A, np)
			plen := 0
			for _, ch := range root.Children[pi].Children {
				plen += ch.Size
			}
			if mode == 0 {
				off := mod(op.B, plen+1)
				s := string(rune('A' + mod(valBase, 26)))
				t.EditByPath([]int{pi, off}, []int{pi, off}, &json.TreeNode{Type: "text", Value: s}, 0)
				res.Args["path"], res.Args["s"], res.Args["mode"] = []int{pi, off}, s, "instext"
				res.Args["units"] = units(s)
			} else {
				if plen == 0 {
					*skip = true
					return nil
				}
				off := mod(op.B, plen)
				if mode == 1 {
					t.EditByPath([]int{pi, off}, []int{pi, off + 1}, nil, 0)
					res.Args["path"], res.Args["mode"] = []int{pi, off}, "deltext"
				} else {
					s := string(rune('a' + mod(valBase, 26)))
					t.EditByPath([]int{pi, off}, []int{pi, off + 1}, &json.TreeNode{Type: "text", Value: s}, 0)
					res.Args["path"], res.Args["s"], res.Args["mode"] = []int{pi, off}, s, "reptext"
					res.Args["units"] = units(s)
				}
			}
		case 2:
			pi := mod(op.A, np+1)
			s := string(rune('A' + mod(valBase, 26)))
			t.EditByPath([]int{pi}, []int{pi}, &json.TreeNode{Type: "p", Children: []json.TreeNode{{Type: "text", Value: s}}}, 0)
			res.Args["path"], res.Args["s"], res.Args["mode"] = []int{pi}, s, "inselem"
			res.Args["units"] = units(s)
		case 3:
			if np == 0 {
				*skip = true
				return nil
			}
			pi := mod(op.A, np)
			t.EditByPath([]int{pi}, []int{pi + 1}, nil, 0)
			res.Args["path"], res.Args["mode"] = []int{pi}, "delelem"
		}
	case "tree.style":
		if np == 0 {
			*skip = true
			return nil
		}
		pi := mod(op.A, np)
		v := fmt.Sprintf("%d", mod(op.V, 3))
		t.StyleByPath([]int{pi}, []int{pi + 1}, map[string]string{"b": v})
		res.Args["path"], res.Args["val"] = []int{pi}, v
	case "tree.rmstyle":
		if np == 0 {
			*skip = true
			return nil
		}
		pi := mod(op.A, np)
		t.RemoveStyleByPath([]int{pi}, []int{pi + 1}, []string{"b"})
		res.Args["path"] = []int{pi}
	}
	return nil
}
