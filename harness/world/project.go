package world

import (
	"fmt"
	"sort"
	"strings"

	"github.com/yorkie-team/yorkie/api/types"
	"github.com/yorkie-team/yorkie/pkg/document"
	"github.com/yorkie-team/yorkie/pkg/document/change"
	"github.com/yorkie-team/yorkie/pkg/document/crdt"
	"github.com/yorkie-team/yorkie/pkg/document/json"
	"github.com/yorkie-team/yorkie/pkg/document/presence"
	"github.com/yorkie-team/yorkie/pkg/document/time"
	"github.com/yorkie-team/yorkie/pkg/document/yson"
	"github.com/yorkie-team/yorkie/server/backend/database"
	"github.com/yorkie-team/yorkie/server/packs"
)

// The projection: implementation state -> abstract state of the specification.

func (w *World) vv(v time.VersionVector) map[string]any {
	out := map[string]any{}
	for a, l := range v {
		out[w.ActorName(a.String())] = l
	}
	return out
}

func cpOf(cp change.Checkpoint) []any { return []any{cp.ServerSeq, int64(cp.ClientSeq)} }

func presKind(c *presence.Change) string {
	if c == nil {
		return "none"
	}
	if c.ChangeType == presence.Clear {
		return "clear"
	}
	return "put"
}

// PresString is the canonical string of a presence map (actors by short name).
func (w *World) PresString(m map[string]presence.Data) string {
	var keys []string
	byName := map[string]presence.Data{}
	for hex, d := range m {
		n := w.ActorName(hex)
		keys = append(keys, n)
		byName[n] = d
	}
	sort.Strings(keys)
	var sb strings.Builder
	for _, k := range keys {
		d := byName[k]
		var ks []string
		for kk := range d {
			ks = append(ks, kk)
		}
		sort.Strings(ks)
		sb.WriteString(k + "={")
		for i, kk := range ks {
			if i > 0 {
				sb.WriteString(",")
			}
			sb.WriteString(kk + "=" + d[kk])
		}
		sb.WriteString("};")
	}
	return sb.String()
}

func (w *World) changeSummary(c *change.Change) map[string]any {
	id := c.ID()
	return map[string]any{
		"cs":    int64(id.ClientSeq()),
		"lam":   id.Lamport(),
		"actor": w.ActorName(id.ActorID().String()),
		"vv":    w.vv(id.VersionVector()),
		"nops":  len(c.Operations()),
		"pres":  presKind(c.PresenceChange()),
		"clk":   id.HasClocks(),
	}
}

func (w *World) packSummary(p *change.Pack) map[string]any {
	chs := []any{}
	for _, c := range p.Changes {
		chs = append(chs, w.changeSummary(c))
	}
	return map[string]any{
		"cp":      cpOf(p.Checkpoint),
		"chs":     chs,
		"vv":      w.vv(p.VersionVector),
		"removed": p.IsRemoved,
	}
}

func (w *World) infoSummary(ci *database.ChangeInfo) map[string]any {
	return map[string]any{
		"s":     ci.ServerSeq,
		"actor": w.ActorName(ci.ActorID.String()),
		"cs":    int64(ci.ClientSeq),
		"lam":   ci.Lamport,
		"vv":    w.vv(ci.VersionVector),
		"nops":  len(ci.Operations),
		"pres":  presKind(ci.PresenceChange),
	}
}

func (w *World) serverPackSummary(p *packs.ServerPack) map[string]any {
	pulled := []any{}
	for _, ci := range p.ChangeInfos {
		pulled = append(pulled, w.infoSummary(ci))
	}
	snapPres := ""
	return map[string]any{
		"cp":       cpOf(p.Checkpoint),
		"pulled":   pulled,
		"snap":     len(p.Snapshot) > 0,
		"hasvv":    p.VersionVector != nil,
		"vv":       w.vv(p.VersionVector),
		"removed":  p.IsRemoved,
		"snappres": snapPres,
	}
}

func statusName(s document.StatusType) string {
	switch s {
	case document.StatusDetached:
		return "detached"
	case document.StatusAttached:
		return "attached"
	case document.StatusRemoved:
		return "removed"
	}
	return fmt.Sprintf("status%d", int(s))
}

// summarize converts hook arguments to trace data at hook time (the objects
// are live and mutated afterwards).
func (w *World) summarize(point string, kv []any) map[string]any {
	switch point {
	case "pp.enter":
		ci := kv[0].(*database.ClientInfo)
		dk := kv[1].(types.DocRefKey)
		req := kv[2].(*change.Pack)
		opts := kv[3].(packs.PushPullOptions)
		out := map[string]any{
			"client":   w.ActorName(ci.ID.String()),
			"docid":    dk.DocID.String(),
			"dockey":   req.DocumentKey.String(),
			"req":      w.packSummary(req),
			"status":   statusName(opts.Status),
			"pushonly": opts.Mode == types.SyncModePushOnly,
			"gcoff":    opts.DisableGC,
			"nopres":   opts.DisablePresence,
		}
		if cdi := ci.Documents[dk.DocID]; cdi != nil {
			out["ci"] = map[string]any{"st": cdi.Status, "s": cdi.ServerSeq, "c": int64(cdi.ClientSeq), "epoch": cdi.Epoch}
		} else {
			out["ci"] = map[string]any{"st": "none", "s": 0, "c": 0, "epoch": 0}
		}
		return out
	case "pp.create.after":
		di := kv[2].(*database.DocInfo)
		pushables := kv[3].([]*database.ChangeInfo)
		cp := kv[4].(change.Checkpoint)
		rows := []any{}
		for _, ci := range pushables {
			rows = append(rows, w.infoSummary(ci))
		}
		return map[string]any{"rows": rows, "seq": di.ServerSeq, "epoch": di.Epoch, "cpc": int64(cp.ClientSeq),
			"removed": di.IsRemoved(), "nopresdoc": di.DisablePresence}
	case "pp.pull.after":
		return map[string]any{"init": kv[2].(int64)}
	case "db.vv.between":
		return map[string]any{}
	case "lock.wait", "lock.acquired", "lock.released":
		return map[string]any{"key": kv[0], "mode": kv[1]}
	case "lock.try":
		return map[string]any{"key": kv[0], "ok": kv[1]}
	case "pp.vv.after":
		return map[string]any{"min": w.vv(kv[2].(time.VersionVector))}
	case "pp.exit":
		ci := kv[0].(*database.ClientInfo)
		out := map[string]any{"client": w.ActorName(ci.ID.String())}
		if kv[3] != nil {
			out["err"] = fmt.Sprint(kv[3])
			return out
		}
		out["err"] = ""
		out["res"] = w.serverPackSummary(kv[2].(*packs.ServerPack))
		return out
	}
	return nil
}

// RepState projects one replica.
func (w *World) RepState(c *Cli, d string) map[string]any {
	r := c.Docs[d]
	if r == nil {
		return map[string]any{"st": "none"}
	}
	doc := r.D
	pend := []any{}
	for _, ch := range doc.CreateChangePack().Changes {
		pend = append(pend, []any{int64(ch.ID().ClientSeq()), ch.ID().Lamport()})
	}
	root := func() (s string) {
		defer func() {
			if p := recover(); p != nil {
				s = fmt.Sprintf("PANIC:%v", p)
			}
		}()
		return doc.Root().Marshal()
	}()
	return map[string]any{
		"st":       statusName(doc.Status()),
		"content":  doc.Marshal(),
		"root":     root,
		"cp":       cpOf(doc.Checkpoint()),
		"vv":       w.vv(doc.VersionVector()),
		"lam":      doc.InternalDocument().Lamport(),
		"pend":     pend,
		"garbage":  doc.GarbageLen(),
		"pres":     w.PresString(doc.AllPresences()),
		"undo":     doc.CanUndo(),
		"redo":     doc.CanRedo(),
		"undon":    doc.UndoStackLenForTest(),
		"ncontent": NormContent(doc),
		"sess":     r.Sess,
	}
}

// NormContent is the content as characters / XML rather than internal chunking
// (C14 compares undo results this way): text nodes are concatenated.
func NormContent(doc *document.Document) string {
	return NormContentOf(doc.RootObject())
}

// NormContentOf is NormContent of a root object.
func NormContentOf(obj *crdt.Object) string {
	keys := []string{}
	for k := range obj.Members() {
		keys = append(keys, k)
	}
	sort.Strings(keys)
	var sb strings.Builder
	for _, k := range keys {
		sb.WriteString(k + "=")
		switch e := obj.Get(k).(type) {
		case *crdt.Text:
			sb.WriteString("text:" + e.String())
		case *crdt.Tree:
			sb.WriteString(e.ToXML())
		default:
			sb.WriteString(e.Marshal())
		}
		sb.WriteString(";")
	}
	return sb.String()
}

// YsonRoundTrip exports the document to YSON, parses the text back, imports it
// into an empty document and exports again (what packs.Compact relies on).
func YsonRoundTrip(root *crdt.Object) (ok bool, before, after, errs string) {
	defer func() {
		if p := recover(); p != nil {
			ok, errs = false, fmt.Sprintf("PANIC:%v", p)
		}
	}()
	y, err := yson.FromCRDT(root)
	if err != nil {
		return false, "", "", err.Error()
	}
	yo, isObj := y.(yson.Object)
	if !isObj {
		return false, "", "", "root is not a yson object"
	}
	before, err = yo.Marshal()
	if err != nil {
		return false, "", "", err.Error()
	}
	var parsed yson.Object
	if err := yson.Unmarshal(before, &parsed); err != nil {
		return false, before, "", "unmarshal: " + err.Error()
	}
	nd := document.New("yson-roundtrip")
	if err := nd.Update(func(r *json.Object, p *presence.Presence) error {
		r.SetYSON(parsed)
		return nil
	}); err != nil {
		return false, before, "", "setyson: " + err.Error()
	}
	y2, err := yson.FromCRDT(nd.RootObject())
	if err != nil {
		return false, before, "", err.Error()
	}
	after, err = y2.(yson.Object).Marshal()
	if err != nil {
		return false, before, "", err.Error()
	}
	return true, before, after, ""
}
