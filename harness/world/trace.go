package world

import (
	"bufio"
	"bytes"
	"encoding/json"
	"os"
	"runtime"
	"strconv"
	"sync"
)

// Trace writes ndjson events.
type Trace struct {
	mu sync.Mutex
	f  *os.File
	w  *bufio.Writer
	N  int
}

// NewTrace opens the output file.
func NewTrace(path string) (*Trace, error) {
	f, err := os.Create(path)
	if err != nil {
		return nil, err
	}
	return &Trace{f: f, w: bufio.NewWriterSize(f, 1<<20)}, nil
}

// Emit writes one event.
func (t *Trace) Emit(ev map[string]any) {
	t.mu.Lock()
	defer t.mu.Unlock()
	b, err := json.Marshal(ev)
	if err != nil {
		panic(err)
	}
	_, _ = t.w.Write(b)
	_ = t.w.WriteByte('\n')
	t.N++
}

// Close flushes and closes the file.
func (t *Trace) Close() error {
	t.mu.Lock()
	defer t.mu.Unlock()
	if err := t.w.Flush(); err != nil {
		return err
	}
	return t.f.Close()
}

func goid() int64 {
	var buf [64]byte
	n := runtime.Stack(buf[:], false)
	// "goroutine 123 [running]:"
	b := buf[:n]
	b = bytes.TrimPrefix(b, []byte("goroutine "))
	i := bytes.IndexByte(b, ' ')
	if i < 0 {
		return -1
	}
	id, err := strconv.ParseInt(string(b[:i]), 10, 64)
	if err != nil {
		return -1
	}
	return id
}

// Goid is the id of the calling goroutine.
func Goid() int64 { return goid() }
