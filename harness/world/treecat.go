package world

// The operation x range matrices of upstream's tree concurrency suite
// (test/complex/tree_concurrency_test.go, Apache-2.0, excluded from the pinned
// suite: build tag + MongoDB), ported as a data catalogue. Helper functions and
// matrices are taken over verbatim; only the test plumbing is replaced.

import (
	"fmt"

	"github.com/yorkie-team/yorkie/pkg/document"
	"github.com/yorkie-team/yorkie/pkg/document/json"
	"github.com/yorkie-team/yorkie/pkg/document/presence"
)

// TreeMatrix is one operation x operation x range matrix.
type TreeMatrix struct {
	Desc         string
	InitialState json.TreeNode
	InitialXML   string
	Ranges       []twoRangesType
	Ops1, Ops2   []operationInterface
}

func safeUpdate(doc *document.Document, f func(root *json.Object, p *presence.Presence) error) (err error) {
	defer func() {
		if p := recover(); p != nil {
			err = fmt.Errorf("PANIC:%v", p)
		}
	}()
	return doc.Update(f)
}

func parseSimpleXML(s string) []string {
	var res []string
	for i := range len(s) {
		current := ""
		if s[i] == '<' {
			for i < len(s) && s[i] != '>' {
				current += string(s[i])
				i++
			}
			current += string(s[i])
		} else {
			current += string(s[i])
		}
		res = append(res, current)
	}
	return res
}

type rangeSelector int

const (
	RangeUnknown rangeSelector = iota
	RangeFront
	RangeMiddle
	RangeBack
	RangeAll
	RangeOneQuarter
	RangeThreeQuarter
)

type rangeType struct {
	from, to int
}

type rangeWithMiddleType struct {
	from, mid, to int
}

type twoRangesType struct {
	ranges [2]rangeWithMiddleType
	desc   string
}

func getRange(ranges twoRangesType, selector rangeSelector, user int) rangeType {
	interval := ranges.ranges[user]
	from, mid, to := interval.from, interval.mid, interval.to
	if selector == RangeFront {
		return rangeType{from, from}
	} else if selector == RangeMiddle {
		return rangeType{mid, mid}
	} else if selector == RangeBack {
		return rangeType{to, to}
	} else if selector == RangeAll {
		return rangeType{from, to}
	} else if selector == RangeOneQuarter {
		pos := (from + mid + 1) / 2
		return rangeType{pos, pos}
	} else if selector == RangeThreeQuarter {
		pos := (mid + to) / 2
		return rangeType{pos, pos}
	}
	return rangeType{-1, -1}
}

func makeTwoRanges(from1, mid1, to1 int, from2, mid2, to2 int, desc string) twoRangesType {
	range0 := rangeWithMiddleType{from1, mid1, to1}
	range1 := rangeWithMiddleType{from2, mid2, to2}
	return twoRangesType{[2]rangeWithMiddleType{range0, range1}, desc}
}

func getMergeRange(xml string, interval rangeType) rangeType {
	content := parseSimpleXML(xml)
	st, ed := -1, -1
	for i := interval.from + 1; i <= interval.to; i++ {
		if st == -1 && len(content[i]) >= 2 && content[i][0] == '<' && content[i][1] == '/' {
			st = i - 1
		}
		if len(content[i]) >= 2 && content[i][0] == '<' && content[i][1] != '/' {
			ed = i
		}
	}
	return rangeType{st, ed}
}

type styleOpCode int
type editOpCode int

const (
	StyleUndefined styleOpCode = iota
	StyleRemove
	StyleSet
)

const (
	EditUndefined editOpCode = iota
	EditUpdate
	MergeUpdate
	SplitUpdate
)

type operationInterface interface {
	run(doc *document.Document, user int, ranges twoRangesType) error
	getDesc() string
}

type styleOperationType struct {
	selector   rangeSelector
	op         styleOpCode
	key, value string
	desc       string
}

type editOperationType struct {
	selector   rangeSelector
	op         editOpCode
	content    *json.TreeNode
	splitLevel int
	desc       string
}

func (op styleOperationType) getDesc() string {
	return op.desc
}

func (op editOperationType) getDesc() string {
	return op.desc
}

func (op styleOperationType) run(doc *document.Document, user int, ranges twoRangesType) error {
	interval := getRange(ranges, op.selector, user)
	from, to := interval.from, interval.to
	return safeUpdate(doc, func(root *json.Object, p *presence.Presence) error {
		if op.op == StyleRemove {
			root.GetTree("t").RemoveStyle(from, to, []string{op.key})
		} else if op.op == StyleSet {
			root.GetTree("t").Style(from, to, map[string]string{op.key: op.value})
		}
		return nil
	})
}

func (op editOperationType) run(doc *document.Document, user int, ranges twoRangesType) error {
	interval := getRange(ranges, op.selector, user)
	from, to := interval.from, interval.to
	return safeUpdate(doc, func(root *json.Object, p *presence.Presence) error {
		if op.op == EditUpdate {
			root.GetTree("t").Edit(from, to, op.content, op.splitLevel)
		} else if op.op == MergeUpdate {
			mergeInterval := getMergeRange(root.GetTree("t").ToXML(), interval)
			from, to = mergeInterval.from, mergeInterval.to
			if from != -1 && to != -1 && from < to {
				root.GetTree("t").Edit(mergeInterval.from, mergeInterval.to, op.content, op.splitLevel)
			}
		} else if op.op == SplitUpdate {
			root.GetTree("t").Edit(from, to, op.content, op.splitLevel)
		}
		return nil
	})
}

func catEditEdit() TreeMatrix {
	//       0   1 2 3 4    5   6 7 8 9    10   11 12 13 14    15
	// <root> <p> a b c </p> <p> d e f </p>  <p>  g  h  i  </p>  </root>

	initialState := json.TreeNode{
		Type: "root",
		Children: []json.TreeNode{
			{Type: "p", Children: []json.TreeNode{{Type: "text", Value: "abc"}}},
			{Type: "p", Children: []json.TreeNode{{Type: "text", Value: "def"}}},
			{Type: "p", Children: []json.TreeNode{{Type: "text", Value: "ghi"}}},
		},
	}
	initialXML := `<root><p>abc</p><p>def</p><p>ghi</p></root>`

	textNode1 := &json.TreeNode{Type: "text", Value: "A"}
	textNode2 := &json.TreeNode{Type: "text", Value: "B"}
	elementNode1 := &json.TreeNode{Type: "b", Children: []json.TreeNode{}}
	elementNode2 := &json.TreeNode{Type: "i", Children: []json.TreeNode{}}

	ranges := []twoRangesType{
		// intersect-element: <p>abc</p><p>def</p> - <p>def</p><p>ghi</p>
		makeTwoRanges(0, 5, 10, 5, 10, 15, `intersect-element`),
		// intersect-text: ab - bc
		makeTwoRanges(1, 2, 3, 2, 3, 4, `intersect-text`),
		// contain-element: <p>abc</p><p>def</p><p>ghi</p> - <p>def</p>
		makeTwoRanges(0, 5, 15, 5, 5, 10, `contain-element`),
		// contain-text: abc - b
		makeTwoRanges(1, 2, 4, 2, 2, 3, `contain-text`),
		// contain-mixed-type: <p>abc</p><p>def</p><p>ghi</p> - def
		makeTwoRanges(0, 5, 15, 6, 7, 9, `contain-mixed-type`),
		// side-by-side-element: <p>abc</p> - <p>def</p>
		makeTwoRanges(0, 5, 5, 5, 5, 10, `side-by-side-element`),
		// side-by-side-text: a - bc
		makeTwoRanges(1, 1, 2, 2, 3, 4, `side-by-side-text`),
		// equal-element: <p>abc</p><p>def</p> - <p>abc</p><p>def</p>
		makeTwoRanges(0, 5, 10, 0, 5, 10, `equal-element`),
		// equal-text: abc - abc
		makeTwoRanges(1, 2, 4, 1, 2, 4, `equal-text`),
	}

	editOperations1 := []operationInterface{
		editOperationType{RangeFront, EditUpdate, textNode1, 0, `insertTextFront`},
		editOperationType{RangeMiddle, EditUpdate, textNode1, 0, `insertTextMiddle`},
		editOperationType{RangeBack, EditUpdate, textNode1, 0, `insertTextBack`},
		editOperationType{RangeAll, EditUpdate, textNode1, 0, `replaceText`},
		editOperationType{RangeFront, EditUpdate, elementNode1, 0, `insertElementFront`},
		editOperationType{RangeMiddle, EditUpdate, elementNode1, 0, `insertElementMiddle`},
		editOperationType{RangeBack, EditUpdate, elementNode1, 0, `insertElementBack`},
		editOperationType{RangeAll, EditUpdate, elementNode1, 0, `replaceElement`},
		editOperationType{RangeAll, EditUpdate, nil, 0, `delete`},
		editOperationType{RangeAll, MergeUpdate, nil, 0, `merge`},
	}

	editOperations2 := []operationInterface{
		editOperationType{RangeFront, EditUpdate, textNode2, 0, `insertTextFront`},
		editOperationType{RangeMiddle, EditUpdate, textNode2, 0, `insertTextMiddle`},
		editOperationType{RangeBack, EditUpdate, textNode2, 0, `insertTextBack`},
		editOperationType{RangeAll, EditUpdate, textNode2, 0, `replaceText`},
		editOperationType{RangeFront, EditUpdate, elementNode2, 0, `insertElementFront`},
		editOperationType{RangeMiddle, EditUpdate, elementNode2, 0, `insertElementMiddle`},
		editOperationType{RangeBack, EditUpdate, elementNode2, 0, `insertElementBack`},
		editOperationType{RangeAll, EditUpdate, elementNode2, 0, `replaceElement`},
		editOperationType{RangeAll, EditUpdate, nil, 0, `delete`},
		editOperationType{RangeAll, MergeUpdate, nil, 0, `merge`},
	}

	return TreeMatrix{"concurrently-edit-edit-test", initialState, initialXML, ranges, editOperations1, editOperations2}
}

func catSplitSplit() TreeMatrix {
	//       0   1   2   3   4 5 6 7 8    9   10 11 12 13 14    15    16   17 18 19 20 21    22    23    24
	// <root> <p> <p> <p> <p> a b c d </p> <p>  e  f  g  h  </p>  </p>  <p>  i  j  k  l  </p>  </p>  </p>  </root>

	initialState := json.TreeNode{
		Type: "root",
		Children: []json.TreeNode{
			{Type: "p", Children: []json.TreeNode{
				{Type: "p", Children: []json.TreeNode{
					{Type: "p", Children: []json.TreeNode{
						{Type: "p", Children: []json.TreeNode{{Type: "text", Value: "abcd"}}},
						{Type: "p", Children: []json.TreeNode{{Type: "text", Value: "efgh"}}},
					}},
					{Type: "p", Children: []json.TreeNode{{Type: "text", Value: "ijkl"}}},
				}},
			}},
		},
	}
	initialXML := `<root><p><p><p><p>abcd</p><p>efgh</p></p><p>ijkl</p></p></p></root>`

	ranges := []twoRangesType{
		// equal-single-element: <p>abcd</p>
		makeTwoRanges(3, 6, 9, 3, 6, 9, `equal-single`),
		// equal-multiple-element: <p>abcd</p><p>efgh</p>
		makeTwoRanges(3, 9, 15, 3, 9, 15, `equal-multiple`),
		// A contains B same level: <p>abcd</p><p>efgh</p> - <p>efgh</p>
		makeTwoRanges(3, 9, 15, 9, 12, 15, `A contains B same level`),
		// A contains B multiple level: <p><p>abcd</p><p>efgh</p></p><p>ijkl</p> - <p>efgh</p>
		makeTwoRanges(2, 16, 22, 9, 12, 15, `A contains B multiple level`),
		// side by side
		makeTwoRanges(3, 6, 9, 9, 12, 15, `B is next to A`),
	}

	splitOperations := []operationInterface{
		editOperationType{RangeFront, SplitUpdate, nil, 1, `split-front-1`},
		editOperationType{RangeOneQuarter, SplitUpdate, nil, 1, `split-one-quarter-1`},
		editOperationType{RangeThreeQuarter, SplitUpdate, nil, 1, `split-three-quarter-1`},
		editOperationType{RangeBack, SplitUpdate, nil, 1, `split-back-1`},
		editOperationType{RangeFront, SplitUpdate, nil, 2, `split-front-2`},
		editOperationType{RangeOneQuarter, SplitUpdate, nil, 2, `split-one-quarter-2`},
		editOperationType{RangeThreeQuarter, SplitUpdate, nil, 2, `split-three-quarter-2`},
		editOperationType{RangeBack, SplitUpdate, nil, 2, `split-back-2`},
	}

	return TreeMatrix{"concurrently-split-split-test", initialState, initialXML, ranges, splitOperations, splitOperations}
}

func catSplitEdit() TreeMatrix {
	//       0   1   2   3 4 5 6 7    8   9 10 11 12 13    14    15   16 17 18 19 20    21    22
	// <root> <p> <p> <p> a b c d </p> <p> e  f  g  h  </p>  </p>  <p>  i  j  k  l  </p>  </p>  </root>

	initialState := json.TreeNode{
		Type: "root",
		Children: []json.TreeNode{
			{Type: "p", Children: []json.TreeNode{
				{Type: "p", Children: []json.TreeNode{
					{Type: "p", Children: []json.TreeNode{{Type: "text", Value: "abcd"}}, Attributes: map[string]string{"italic": "true"}},
					{Type: "p", Children: []json.TreeNode{{Type: "text", Value: "efgh"}}, Attributes: map[string]string{"italic": "true"}},
				}, Attributes: map[string]string{"italic": "true"}},
				{Type: "p", Children: []json.TreeNode{{Type: "text", Value: "ijkl"}}, Attributes: map[string]string{"italic": "true"}},
			}},
		},
	}
	initialXML := `<root><p><p italic="true"><p italic="true">abcd</p><p italic="true">efgh</p></p><p italic="true">ijkl</p></p></root>`

	content := &json.TreeNode{Type: "i", Children: []json.TreeNode{}}

	ranges := []twoRangesType{
		// equal: <p>ab'cd</p>
		makeTwoRanges(2, 5, 8, 2, 5, 8, `equal`),
		// A contains B: <p>ab'cd</p> - bc
		makeTwoRanges(2, 5, 8, 4, 5, 6, `A contains B`),
		// B contains A: <p>ab'cd</p> - <p>abcd</p><p>efgh</p>
		makeTwoRanges(2, 5, 8, 2, 8, 14, `B contains A`),
		// left node(text): <p>ab'cd</p> - ab
		makeTwoRanges(2, 5, 8, 3, 4, 5, `left node(text)`),
		// right node(text): <p>ab'cd</p> - cd
		makeTwoRanges(2, 5, 8, 5, 6, 7, `right node(text)`),
		// left node(element): <p>abcd</p>'<p>efgh</p> - <p>abcd</p>
		makeTwoRanges(2, 8, 14, 2, 5, 8, `left node(element)`),
		// right node(element): <p>abcd</p>'<p>efgh</p> - <p>efgh</p>
		makeTwoRanges(2, 8, 14, 8, 11, 14, `right node(element)`),
		// A -> B: <p>ab'cd</p> - <p>efgh</p>
		makeTwoRanges(2, 5, 8, 8, 11, 14, `A -> B`),
		// B -> A: <p>ef'gh</p> - <p>abcd</p>
		makeTwoRanges(8, 11, 14, 2, 5, 8, `B -> A`),
	}

	splitOperations := []operationInterface{
		editOperationType{RangeMiddle, SplitUpdate, nil, 1, `split-1`},
		editOperationType{RangeMiddle, SplitUpdate, nil, 2, `split-2`},
	}

	editOperations := []operationInterface{
		editOperationType{RangeFront, EditUpdate, content, 0, `insertFront`},
		editOperationType{RangeMiddle, EditUpdate, content, 0, `insertMiddle`},
		editOperationType{RangeBack, EditUpdate, content, 0, `insertBack`},
		editOperationType{RangeAll, EditUpdate, content, 0, "replace"},
		editOperationType{RangeAll, EditUpdate, nil, 0, `delete`},
		editOperationType{RangeAll, MergeUpdate, nil, 0, `merge`},
		styleOperationType{RangeAll, StyleSet, "bold", "aa", `style`},
		styleOperationType{RangeAll, StyleRemove, "italic", "", `remove-style`},
	}

	return TreeMatrix{"concurrently-split-edit-test", initialState, initialXML, ranges, splitOperations, editOperations}
}

func catStyleStyle() TreeMatrix {
	//       0   1 2    3   4 5    6   7 8    9
	// <root> <p> a </p> <p> b </p> <p> c </p> </root>
	// 0,3 : |----------|
	// 3,6 :            |----------|
	// 6,9 :                       |----------|

	initialState := json.TreeNode{
		Type: "root",
		Children: []json.TreeNode{
			{Type: "p", Children: []json.TreeNode{{Type: "text", Value: "a"}}},
			{Type: "p", Children: []json.TreeNode{{Type: "text", Value: "b"}}},
			{Type: "p", Children: []json.TreeNode{{Type: "text", Value: "c"}}},
		},
	}
	initialXML := `<root><p>a</p><p>b</p><p>c</p></root>`

	ranges := []twoRangesType{
		// equal: <p>b</p> - <p>b</p>
		makeTwoRanges(3, -1, 6, 3, -1, 6, `equal`),
		// contain: <p>a</p><p>b</p><p>c</p> - <p>b</p>
		makeTwoRanges(0, -1, 9, 3, -1, 6, `contain`),
		// intersect: <p>a</p><p>b</p> - <p>b</p><p>c</p>
		makeTwoRanges(0, -1, 6, 3, -1, 9, `intersect`),
		// side-by-side: <p>a</p> - <p>b</p>
		makeTwoRanges(0, -1, 3, 3, -1, 6, `side-by-side`),
	}

	styleOperations := []operationInterface{
		styleOperationType{RangeAll, StyleRemove, "bold", "", `remove-bold`},
		styleOperationType{RangeAll, StyleSet, "bold", "aa", `set-bold-aa`},
		styleOperationType{RangeAll, StyleSet, "bold", "bb", `set-bold-bb`},
		styleOperationType{RangeAll, StyleRemove, "italic", "", `remove-italic`},
		styleOperationType{RangeAll, StyleSet, "italic", "aa", `set-italic-aa`},
		styleOperationType{RangeAll, StyleSet, "italic", "bb", `set-italic-bb`},
	}

	return TreeMatrix{"concurrently-style-style-test", initialState, initialXML, ranges, styleOperations, styleOperations}
}

func catEditStyle() TreeMatrix {
	//       0   1 2    3   4 5    6   7 8    9
	// <root> <p> a </p> <p> b </p> <p> c </p> </root>
	// 0,3 : |----------|
	// 3,6 :            |----------|
	// 6,9 :                       |----------|

	initialState := json.TreeNode{
		Type: "root",
		Children: []json.TreeNode{
			{Type: "p", Children: []json.TreeNode{{Type: "text", Value: "a"}}, Attributes: map[string]string{"color": "red"}},
			{Type: "p", Children: []json.TreeNode{{Type: "text", Value: "b"}}, Attributes: map[string]string{"color": "red"}},
			{Type: "p", Children: []json.TreeNode{{Type: "text", Value: "c"}}, Attributes: map[string]string{"color": "red"}},
		},
	}
	initialXML := `<root><p color="red">a</p><p color="red">b</p><p color="red">c</p></root>`

	content := &json.TreeNode{Type: "p", Attributes: map[string]string{
		"italic": "true",
		"color":  "blue",
	}, Children: []json.TreeNode{{Type: "text", Value: `d`}}}

	ranges := []twoRangesType{
		// equal: <p>b</p> - <p>b</p>
		makeTwoRanges(3, 3, 6, 3, -1, 6, `equal`),
		// equal multiple: <p>a</p><p>b</p><p>c</p> - <p>a</p><p>b</p><p>c</p>
		makeTwoRanges(0, 3, 9, 0, 3, 9, `equal multiple`),
		// A contains B: <p>a</p><p>b</p><p>c</p> - <p>b</p>
		makeTwoRanges(0, 3, 9, 3, -1, 6, `A contains B`),
		// B contains A: <p>b</p> - <p>a</p><p>b</p><p>c</p>
		makeTwoRanges(3, 3, 6, 0, -1, 9, `B contains A`),
		// intersect: <p>a</p><p>b</p> - <p>b</p><p>c</p>
		makeTwoRanges(0, 3, 6, 3, -1, 9, `intersect`),
		// A -> B: <p>a</p> - <p>b</p>
		makeTwoRanges(0, 3, 3, 3, -1, 6, `A -> B`),
		// B -> A: <p>b</p> - <p>a</p>
		makeTwoRanges(3, 3, 6, 0, -1, 3, `B -> A`),
	}

	editOperations := []operationInterface{
		editOperationType{RangeFront, EditUpdate, content, 0, `insertFront`},
		editOperationType{RangeMiddle, EditUpdate, content, 0, `insertMiddle`},
		editOperationType{RangeBack, EditUpdate, content, 0, `insertBack`},
		editOperationType{RangeAll, EditUpdate, nil, 0, `delete`},
		editOperationType{RangeAll, EditUpdate, content, 0, `replace`},
		editOperationType{RangeAll, MergeUpdate, nil, 0, `merge`},
	}

	styleOperations := []operationInterface{
		styleOperationType{RangeAll, StyleRemove, "color", "", `remove-color`},
		styleOperationType{RangeAll, StyleSet, "bold", "aa", `set-bold-aa`},
	}

	return TreeMatrix{"concurrently-edit-style-test", initialState, initialXML, ranges, editOperations, styleOperations}
}

// TreeCatalogue returns upstream's five matrices.
func TreeCatalogue() []TreeMatrix {
	return []TreeMatrix{catEditEdit(), catSplitSplit(), catSplitEdit(), catStyleStyle(), catEditStyle()}
}

// TreeCase names one cell of a matrix.
type TreeCase struct {
	M, R, I, J int
	Name       string
}

// TreeCases enumerates the whole catalogue.
func TreeCases() []TreeCase {
	var out []TreeCase
	for m, mat := range TreeCatalogue() {
		for r, rg := range mat.Ranges {
			for i, o1 := range mat.Ops1 {
				for j, o2 := range mat.Ops2 {
					out = append(out, TreeCase{m, r, i, j, fmt.Sprintf("%s/%s/%s/%s", mat.Desc, rg.desc, o1.getDesc(), o2.getDesc())})
				}
			}
		}
	}
	return out
}

// RunTreeCase executes one cell: c1 builds the tree, both sync, each makes its
// edit, then they sync in the given order; a third client c3 stays passive and is
// fed by snapshot (project threshold 1) or, in variant "late", attaches only
// after the edits were pushed.
func (w *World) RunTreeCase(tc TreeCase, order int, variant string) error {
	mat := TreeCatalogue()[tc.M]
	b := &Behaviour{ID: fmt.Sprintf("%s#o%d-%s", tc.Name, order, variant), NClients: 3, Docs: []string{"d1"}, Family: "tree-" + mat.Desc}
	if err := w.SetProjectSnapshot(1000, 1000); err != nil {
		return err
	}
	w.T.Emit(map[string]any{
		"ev": "Init", "id": b.ID, "family": b.Family, "clients": toAny(w.Order), "docs": toAny(b.Docs),
		"threshold": w.Project.SnapshotThreshold, "interval": w.Project.SnapshotInterval, "snapgcoff": w.S.Opts.SnapshotDisableGC,
	})
	n := 0
	do := func(st Step) error { n++; return w.Step(n, st, b) }
	d := "d1"
	if err := do(Step{A: "attach", C: "c1", D: d}); err != nil {
		return err
	}
	if err := do(Step{A: "attach", C: "c2", D: d}); err != nil {
		return err
	}
	if variant == "passive" {
		if err := do(Step{A: "attach", C: "c3", D: d}); err != nil {
			return err
		}
	}
	// initial tree by c1
	n++
	if err := w.customEdit(n, "c1", d, "tree.init", func(doc *document.Document) error {
		return safeUpdate(doc, func(root *json.Object, p *presence.Presence) error {
			root.SetNewTree("t", mat.InitialState)
			return nil
		})
	}); err != nil {
		return err
	}
	for _, c := range []string{"c1", "c2"} {
		if err := do(Step{A: "sync", C: c, D: d}); err != nil {
			return err
		}
	}
	rg := mat.Ranges[tc.R]
	n++
	if err := w.customEdit(n, "c1", d, mat.Ops1[tc.I].getDesc(), func(doc *document.Document) error { return mat.Ops1[tc.I].run(doc, 0, rg) }); err != nil {
		return err
	}
	n++
	if err := w.customEdit(n, "c2", d, mat.Ops2[tc.J].getDesc(), func(doc *document.Document) error { return mat.Ops2[tc.J].run(doc, 1, rg) }); err != nil {
		return err
	}
	first, second := "c1", "c2"
	if order == 1 {
		first, second = "c2", "c1"
	}
	for _, c := range []string{first, second, first} {
		if err := do(Step{A: "sync", C: c, D: d}); err != nil {
			return err
		}
	}
	if variant == "late" {
		// a late joiner fed by snapshot
		if err := w.SetProjectSnapshot(1, 1); err != nil {
			return err
		}
		if err := do(Step{A: "attach", C: "c3", D: d}); err != nil {
			return err
		}
	}
	for round := 0; round < 2; round++ {
		for _, c := range w.Order {
			cl := w.Clients[c]
			if r, ok := cl.Docs[d]; ok && cl.Active && r.D.Status() == document.StatusAttached {
				if err := do(Step{A: "sync", C: c, D: d}); err != nil {
					return err
				}
			}
		}
	}
	if err := do(Step{A: "build", D: d, N: 0}); err != nil {
		return err
	}
	w.T.Emit(map[string]any{"ev": "End", "id": b.ID})
	return nil
}

// customEdit runs an arbitrary update as an Edit step.
func (w *World) customEdit(no int, cn, d, desc string, f func(doc *document.Document) error) error {
	c := w.Clients[cn]
	rep := c.Docs[d]
	err := f(rep.D)
	w.captureChanges(d, rep)
	ev := map[string]any{"ev": "Edit", "step": no, "c": cn, "d": d, "sess": rep.Sess, "op": map[string]any{"k": desc},
		"outcome": "ok", "args": map[string]any{}, "fail": "", "ok": err == nil, "err": errClass(err)}
	if err != nil {
		ev["outcome"] = "err"
		ev["fail"] = "" // an error of a catalogue operation is a failure of the edit itself
	}
	if err := w.emitHooks(no, "edit"); err != nil {
		return err
	}
	ev["rep"] = w.RepState(c, d)
	w.T.Emit(ev)
	return w.feedRefs(no)
}
