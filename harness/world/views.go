package world

import (
	"sort"
	"strconv"
	"unicode/utf16"

	"github.com/yorkie-team/yorkie/pkg/document"
	"github.com/yorkie-team/yorkie/pkg/document/crdt"
)

// Views of one container through the public, index-based API (what C07 talks
// about) and, independently, through the authoritative document's own
// iteration (what Marshal() prints). The TLA+ reference semantics (SeqApply in
// YorkieTrace.tla) is applied to the former; the two must agree.

func units(s string) []any {
	out := []any{}
	for _, u := range utf16.Encode([]rune(s)) {
		out = append(out, int(u))
	}
	return out
}

func atoiOr(s string) any {
	if n, err := strconv.Atoi(s); err == nil {
		return n
	}
	return s
}

func treeParas(n crdt.TreeNodeForTest) []any {
	out := []any{}
	for _, p := range n.Children {
		us := []any{}
		for _, ch := range p.Children {
			us = append(us, units(ch.Value)...)
		}
		out = append(out, us)
	}
	return out
}

// opContainer maps an op kind to the container it edits.
func opContainer(k string) string {
	switch {
	case len(k) > 4 && k[:4] == "arr.":
		return KArr
	case len(k) > 4 && k[:4] == "txt.":
		return KText
	case len(k) > 4 && k[:4] == "obj.":
		return KObj
	case len(k) > 4 && k[:4] == "cnt.":
		return KCnt
	case len(k) > 5 && k[:5] == "tree.":
		return KTree
	}
	return ""
}

// APIView reads the container through Document.Root() (index based API).
func APIView(d *document.Document, cont string) (v any, ok bool) {
	defer func() {
		if p := recover(); p != nil {
			v, ok = "PANIC", false
		}
	}()
	r := d.Root()
	switch cont {
	case KArr:
		a := r.GetArray(KArr)
		if a == nil {
			return nil, false
		}
		out := []any{}
		for i := 0; i < a.Len(); i++ {
			e := a.Get(i)
			if e == nil {
				out = append(out, "NIL")
				continue
			}
			out = append(out, atoiOr(e.Marshal()))
		}
		return out, true
	case KText:
		t := r.GetText(KText)
		if t == nil {
			return nil, false
		}
		return units(t.String()), true
	case KObj:
		o := r.GetObject(KObj)
		if o == nil {
			return nil, false
		}
		m := map[string]any{}
		for _, k := range objKeys {
			if o.Has(k) {
				m[k] = o.Get(k).Marshal()
			}
		}
		return m, true
	case KCnt:
		c := r.GetCounter(KCnt)
		if c == nil {
			return nil, false
		}
		switch x := c.Value().(type) {
		case int32:
			return int(x), true
		case int64:
			return int(x), true
		}
		return nil, false
	case KTree:
		t := r.GetTree(KTree)
		if t == nil {
			return nil, false
		}
		return treeParas(t.ToTreeNodeForTest()), true
	}
	return nil, false
}

// DocView reads the same container from the authoritative document by its own
// iteration (independent of the order-statistic trees).
func DocView(d *document.Document, cont string) (any, bool) {
	e := d.RootObject().Get(cont)
	switch x := e.(type) {
	case *crdt.Array:
		out := []any{}
		for _, el := range x.Elements() {
			out = append(out, atoiOr(el.Marshal()))
		}
		return out, true
	case *crdt.Text:
		return units(x.String()), true
	case *crdt.Object:
		m := map[string]any{}
		ks := []string{}
		for k := range x.Members() {
			ks = append(ks, k)
		}
		sort.Strings(ks)
		for _, k := range ks {
			m[k] = x.Get(k).Marshal()
		}
		return m, true
	case *crdt.Counter:
		switch v := x.Value().(type) {
		case int32:
			return int(v), true
		case int64:
			return int(v), true
		}
	case *crdt.Tree:
		return treeParas(x.ToTreeNodeForTest()), true
	}
	return nil, false
}
