// Package world runs the real Yorkie stack in-process (server.Yorkie on memdb,
// real client.Client over loopback Connect RPC, real document.Document) and
// records what it does as ndjson trace events for the TLA+ trace specifications.
package world

import (
	"context"
	"fmt"
	"net"
	"sort"
	"strings"
	"sync"
	"sync/atomic"
	gotime "time"

	"github.com/yorkie-team/yorkie/api/types"
	"github.com/yorkie-team/yorkie/client"
	"github.com/yorkie-team/yorkie/pkg/document"
	"github.com/yorkie-team/yorkie/pkg/document/change"
	"github.com/yorkie-team/yorkie/pkg/document/time"
	"github.com/yorkie-team/yorkie/pkg/verifhook"
	"github.com/yorkie-team/yorkie/server"
	"github.com/yorkie-team/yorkie/server/backend"
	"github.com/yorkie-team/yorkie/server/backend/database"
	"github.com/yorkie-team/yorkie/server/backend/housekeeping"
	"github.com/yorkie-team/yorkie/server/backend/membership"
	"github.com/yorkie-team/yorkie/server/logging"
	"github.com/yorkie-team/yorkie/server/profiling"
	"github.com/yorkie-team/yorkie/server/rpc"
)

// ServerOpts are the server-level (process-level) options.
type ServerOpts struct {
	SnapshotDisableGC bool
	SnapshotCacheSize int // 0 => default 10
	ClusterSecret     string
	NoDefaultProject  bool
	ChannelTTL        string // "" => 5s
}

// Server is one in-process Yorkie server.
type Server struct {
	Y    *server.Yorkie
	Be   *backend.Backend
	Addr string
	Opts ServerOpts
}

func freePort() int {
	l, err := net.Listen("tcp", "127.0.0.1:0")
	if err != nil {
		panic(err)
	}
	defer func() { _ = l.Close() }()
	return l.Addr().(*net.TCPAddr).Port
}

// StartServer starts a memdb-only Yorkie server on free loopback ports.
func StartServer(o ServerOpts) (*Server, error) {
	if !verifhook.Enabled {
		return nil, fmt.Errorf("harness must be built with -tags verif")
	}
	// Several harness processes pick free ports at the same time: retry on a
	// lost race for a port.
	var lastErr error
	for try := 0; try < 20; try++ {
		s, err := startServerOnce(o)
		if err == nil {
			return s, nil
		}
		lastErr = err
		if !strings.Contains(err.Error(), "address already in use") {
			return nil, err
		}
		gotime.Sleep(gotime.Duration(20*(try+1)) * gotime.Millisecond)
	}
	return nil, lastErr
}

func startServerOnce(o ServerOpts) (*Server, error) {
	_ = logging.SetLogLevel("fatal")
	port := freePort()
	pport := freePort()
	cache := o.SnapshotCacheSize
	if cache == 0 {
		cache = 10
	}
	addr := fmt.Sprintf("localhost:%d", port)
	conf := &server.Config{
		RPC: &rpc.Config{
			Port:              port,
			ReadHeaderTimeout: server.DefaultRPCReadHeaderTimeout.String(),
			IdleTimeout:       server.DefaultRPCIdleTimeout.String(),
		},
		Profiling:  &profiling.Config{Port: pport},
		Membership: &membership.Config{LeaseDuration: "15s", RenewalInterval: "5s"},
		Housekeeping: &housekeeping.Config{
			Interval:             "1h",
			CandidatesLimit:      10,
			CompactionMinChanges: 5,
		},
		Backend: &backend.Config{
			AdminUser:                     server.DefaultAdminUser,
			AdminPassword:                 server.DefaultAdminPassword,
			AdminTokenDuration:            server.DefaultAdminTokenDuration.String(),
			UseDefaultProject:             !o.NoDefaultProject,
			SecretKey:                     server.DefaultSecretKey,
			SnapshotCacheSize:             cache,
			SnapshotDisableGC:             o.SnapshotDisableGC,
			AuthWebhookCacheSize:          100,
			AuthWebhookCacheTTL:           "10s",
			GatewayAddr:                   addr,
			RPCAddr:                       addr,
			ChannelSessionTTL:             chanTTL(o),
			ChannelSessionCleanupInterval: "1s",
			ChannelSessionCountCacheTTL:   "10s",
			ChannelSessionCountCacheSize:  100,
			ClusterRPCTimeout:             "10s",
			ClusterClientTimeout:          "30s",
			ClusterClientPoolSize:         1,
			MaxConcurrentClusterRPCs:      5000,
			ClusterSecret:                 o.ClusterSecret,
		},
		Mongo: nil,
	}
	y, err := server.New(conf)
	if err != nil {
		return nil, err
	}
	if err := y.Start(); err != nil {
		return nil, err
	}
	return &Server{Y: y, Be: y.Backend(), Addr: y.RPCAddr(), Opts: o}, nil
}

func chanTTL(o ServerOpts) string {
	if o.ChannelTTL != "" {
		return o.ChannelTTL
	}
	return "5s"
}

// Stop shuts the server down.
func (s *Server) Stop() { _ = s.Y.Shutdown(true) }

// ---------------------------------------------------------------------------
// Hook capture. In sequential mode every hook event is appended to a buffer
// that the step executor drains after the public call returned.

// HookEvent is one verifhook.At call.
type HookEvent struct {
	Seq   int64
	Point string
	KV    []any
	Data  map[string]any
	GID   int64
}

// Hooks is the process-wide hook recorder/dispatcher.
type Hooks struct {
	mu      sync.Mutex
	seq     int64
	buf     []HookEvent
	pending int64 // background tasks spawned and not yet ended
	// Gate, when set, is called for every hook event (outside mu) and may block.
	Gate func(ev HookEvent)
	// RecordLocks makes lock.* events buffered too.
	RecordLocks bool
	// Summarize converts live hook arguments to trace data at hook time.
	Summarize func(point string, kv []any) map[string]any
}

// Install makes h the process-wide hook.
func (h *Hooks) Install() {
	verifhook.Set(func(point string, kv ...any) {
		switch point {
		case "bg.spawn":
			atomic.AddInt64(&h.pending, 1)
		case "bg.end":
			defer atomic.AddInt64(&h.pending, -1)
		}
		if !h.RecordLocks && len(point) > 5 && point[:5] == "lock." {
			if h.Gate != nil {
				h.Gate(HookEvent{Point: point, KV: kv, GID: goid()})
			}
			return
		}
		var data map[string]any
		if h.Summarize != nil {
			data = h.Summarize(point, kv)
		}
		h.mu.Lock()
		h.seq++
		ev := HookEvent{Seq: h.seq, Point: point, Data: data, GID: goid()}
		if len(point) > 5 && point[:5] == "lock." {
			ev.KV = kv
		}
		h.buf = append(h.buf, ev)
		h.mu.Unlock()
		if h.Gate != nil {
			h.Gate(ev)
		}
	})
}

// Uninstall removes the process-wide hook.
func (h *Hooks) Uninstall() { verifhook.Set(nil) }

// Mark appends a pseudo event (harness-side step) to the ordered buffer.
func (h *Hooks) Mark(point string, data map[string]any) {
	h.mu.Lock()
	h.seq++
	h.buf = append(h.buf, HookEvent{Seq: h.seq, Point: point, Data: data, GID: goid()})
	h.mu.Unlock()
}

// Drain returns and clears the buffered events.
func (h *Hooks) Drain() []HookEvent {
	h.mu.Lock()
	defer h.mu.Unlock()
	out := h.buf
	h.buf = nil
	return out
}

// WaitBG waits until every spawned background task has ended.
func (h *Hooks) WaitBG() error {
	deadline := gotime.Now().Add(30 * gotime.Second)
	for atomic.LoadInt64(&h.pending) != 0 {
		if gotime.Now().After(deadline) {
			return fmt.Errorf("background tasks did not finish within 30s")
		}
		gotime.Sleep(50 * gotime.Microsecond)
	}
	return nil
}

// ---------------------------------------------------------------------------

// Cli is one model client bound to a real client.Client.
type Cli struct {
	Name   string // c1, c2, ... (by ascending actor id)
	C      *client.Client
	Actor  string // hex
	Docs   map[string]*Rep
	Active bool
}

// Rep is one document instance (attachment session) of a client.
type Rep struct {
	D       *document.Document
	Pre     bool // edited before its first attach (step "preedit"): the attach step uses this instance
	Sess    int
	DocID   types.ID
	stopEvt chan struct{}
}

// World is one behaviour's universe: a project-scoped set of clients and
// documents on a (shared) server.
type World struct {
	S       *Server
	H       *Hooks
	Ctx     context.Context
	Project *types.Project
	APIKey  string
	Clients map[string]*Cli
	Order   []string
	DocKeys map[string]string // d1 -> real key
	actors  map[string]string // hex -> short name
	uid     string
	sessCtr map[string]int
	T       *Trace
	refs    map[string]*RefDoc
	lastSeq map[string]int64 // rows already reported per doc (current epoch)
	lastEp  map[string]int64
	orig    map[string]*change.Change // original change objects by doc/actor/clientSeq/lamport
	revs    map[string]types.ID       // the revision taken of a document
	// Poisoned: requests are blocked forever on this world's server (deadlock);
	// it must be abandoned, not closed gracefully.
	Poisoned bool
}

var worldCtr int64

// NewWorld creates a world with n activated clients named by ascending actor id.
func NewWorld(s *Server, h *Hooks, t *Trace, n int, docs []string) (*World, error) {
	ctx := context.Background()
	project, err := s.Y.DefaultProject(ctx)
	if err != nil {
		return nil, err
	}
	id := atomic.AddInt64(&worldCtr, 1)
	w := &World{
		S: s, H: h, Ctx: ctx, Project: project, APIKey: project.PublicKey,
		Clients: map[string]*Cli{}, DocKeys: map[string]string{},
		actors: map[string]string{}, uid: fmt.Sprintf("w%d-%d", gotime.Now().UnixNano()%1000000, id),
		sessCtr: map[string]int{}, T: t, refs: map[string]*RefDoc{},
		lastSeq: map[string]int64{}, lastEp: map[string]int64{},
	}
	for _, d := range docs {
		w.DocKeys[d] = fmt.Sprintf("%s-%s", w.uid, d)
	}
	var cs []*client.Client
	for i := 0; i < n; i++ {
		c, err := client.Dial(s.Addr, client.WithAPIKey(w.APIKey),
			client.WithSyncLoopDuration(gotime.Hour))
		if err != nil {
			return nil, err
		}
		if err := c.Activate(ctx); err != nil {
			return nil, err
		}
		cs = append(cs, c)
	}
	sort.Slice(cs, func(i, j int) bool { return cs[i].ID().Compare(cs[j].ID()) < 0 })
	for i, c := range cs {
		name := fmt.Sprintf("c%d", i+1)
		w.Clients[name] = &Cli{Name: name, C: c, Actor: c.ID().String(), Docs: map[string]*Rep{}, Active: true}
		w.Order = append(w.Order, name)
		w.actors[c.ID().String()] = name
	}
	w.actors[time.InitialActorID.String()] = "init"
	h.Summarize = w.summarize
	return w, nil
}

// Close deactivates what is still active and closes the clients.
func (w *World) Close() {
	for _, name := range w.Order {
		c := w.Clients[name]
		for _, r := range c.Docs {
			r.stop()
		}
		if c.Active {
			_ = c.C.Deactivate(w.Ctx)
		}
		_ = c.C.Close()
	}
	_ = w.H.WaitBG()
	w.H.Drain()
}

// ActorName maps an actor hex id to its short name.
func (w *World) ActorName(hex string) string {
	if n, ok := w.actors[hex]; ok {
		return n
	}
	if len(hex) > 6 {
		return "x" + hex[len(hex)-6:]
	}
	return "x" + hex
}

// DocNameByKey maps a real document key to d1, d2...
func (w *World) DocNameByKey(k string) string {
	for n, key := range w.DocKeys {
		if key == k {
			return n
		}
	}
	return k
}

func (r *Rep) stop() {
	if r.stopEvt != nil {
		close(r.stopEvt)
		r.stopEvt = nil
	}
}

// drainEvents keeps the capacity-1 Document.events channel empty; otherwise a
// presence change would block ApplyChangePack (a harness artefact).
func (r *Rep) drainEvents() {
	r.stopEvt = make(chan struct{})
	stop := r.stopEvt
	ch := r.D.Events()
	go func() {
		for {
			select {
			case <-ch:
			case <-stop:
				return
			}
		}
	}()
}

// DocInfo returns the server's DocInfo of a model doc (nil if not created).
func (w *World) DocInfo(d string) *database.DocInfo {
	for _, name := range w.Order {
		if r, ok := w.Clients[name].Docs[d]; ok && r.DocID != "" {
			info, err := w.S.Be.DB.FindDocInfoByRefKey(w.Ctx, types.DocRefKey{ProjectID: w.Project.ID, DocID: r.DocID})
			if err == nil {
				return info
			}
		}
	}
	return nil
}
