"""Driver library: runs TLC (generation, model checking, trace validation), the Go
harness, findings matching and evidence writing. Python 3 standard library only."""
import hashlib
import json
import os
import random
import re
import shutil
import subprocess
import sys
import tempfile
import time

VERIF = os.path.dirname(os.path.dirname(os.path.abspath(__file__)))
REPO = os.environ.get("VERIF_REPO", "/repo")
SPEC = os.path.join(VERIF, "spec")
HARNESS = os.path.join(VERIF, "harness")
NCPU = os.cpu_count() or 4


class Infra(Exception):
    """Infrastructure failure: exit 2, never a violation."""


class Ctx:
    def __init__(self, prop, tier, seed):
        self.prop = prop
        self.tier = tier
        self.seed = seed
        self.t0 = time.time()
        self.scratch = tempfile.mkdtemp(prefix="verif-%s-" % prop)
        self.rng = random.Random(seed)
        self.yvh = None
        self.tlc_runs = []        # dicts: cfg, module, states, distinct, wall, mode
        self.notes = []
        self.samples = []
        self.counters = {}
        self.attributed = {}

    def cleanup(self):
        shutil.rmtree(self.scratch, ignore_errors=True)

    def sub(self, name):
        p = os.path.join(self.scratch, name)
        os.makedirs(p, exist_ok=True)
        return p

    def count(self, k, n=1):
        self.counters[k] = self.counters.get(k, 0) + n


def goenv():
    env = dict(os.environ)
    env["GOFLAGS"] = "-mod=mod"
    env["GOPROXY"] = "off"
    env.pop("GOSUMDB", None)
    env.pop("GOTOOLCHAIN", None)
    return env


def build_harness(ctx, race=False):
    """Rebuilds the harness from /repo's current working tree with the hooks on."""
    out = os.path.join(ctx.scratch, "yvh-race" if race else "yvh")
    cmd = ["go", "build", "-tags", "verif", "-o", out]
    if REPO != "/repo":
        # own tooling only (seeded changes tried on a scratch copy while /repo stays untouched):
        # the same harness module with its replace directive pointing at the copy
        alt = os.path.join(ctx.scratch, "alt.mod")
        open(alt, "w").write(open(os.path.join(HARNESS, "go.mod")).read().replace("=> /repo", "=> " + REPO))
        shutil.copy(os.path.join(HARNESS, "go.sum"), os.path.join(ctx.scratch, "alt.sum"))
        cmd.append("-modfile=" + alt)
    if race:
        cmd.append("-race")
    cmd.append("./cmd/yvh")
    p = subprocess.run(cmd, cwd=HARNESS, env=goenv(), capture_output=True, text=True)
    if p.returncode != 0:
        raise Infra("harness build failed:\n" + p.stdout + p.stderr)
    if race:
        ctx.yvh_race = out
    else:
        ctx.yvh = out
    return out


# --------------------------------------------------------------------------- TLC

def _tlc_env(tmp):
    env = dict(os.environ)
    env["JAVA_TOOL_OPTIONS"] = "-Djava.io.tmpdir=%s -Xss64m" % tmp
    return env


STATS_RE = re.compile(r"(\d+) states generated, (\d+) distinct states found")


def run_tlc(ctx, module, cfg, workers=None, extra=None, env_extra=None, timeout=1800, overrides=None,
            simulate=None):
    """Runs TLC on a scratch copy of the spec directory. cfg is a file name under
    spec/cfg. overrides: dict of cfg CONSTANT replacements (name -> text)."""
    d = tempfile.mkdtemp(prefix="tlc-", dir=ctx.scratch)
    for f in os.listdir(SPEC):
        if f.endswith(".tla"):
            shutil.copy(os.path.join(SPEC, f), d)
    cfgtext = open(os.path.join(SPEC, "cfg", cfg)).read()
    if overrides:
        for k, v in overrides.items():
            op = "<-" if re.match(r"^[A-Z][A-Za-z0-9]*$", v) and v not in ("TRUE", "FALSE") else "="
            cfgtext, n = re.subn(r"(?m)^(\s*)%s\s*(=|<-).*$" % re.escape(k),
                                 lambda m, k=k, v=v, op=op: "%s%s %s %s" % (m.group(1), k, op, v), cfgtext)
            if n == 0:
                raise Infra("cfg override %s not found in %s" % (k, cfg))
    open(os.path.join(d, "run.cfg"), "w").write(cfgtext)
    tmp = os.path.join(d, "tmp")
    os.makedirs(tmp)
    cmd = ["tlc", "-workers", str(workers or min(NCPU, 8)), "-metadir", os.path.join(d, "md"), "-config", "run.cfg"]
    if simulate:
        cmd += ["-simulate", simulate, "-depth", "200", "-seed", str(ctx.seed * 7919 + len(ctx.tlc_runs))]
    if extra:
        cmd += extra
    cmd.append(module + ".tla")
    env = _tlc_env(tmp)
    if env_extra:
        env.update(env_extra)
    t0 = time.time()
    outp = os.path.join(d, "out.txt")
    with open(outp, "w") as fo:
        try:
            p = subprocess.run(cmd, cwd=d, env=env, stdout=fo, stderr=subprocess.STDOUT, timeout=timeout)
            rc = p.returncode
        except subprocess.TimeoutExpired:
            rc = -9
    wall = time.time() - t0
    out = open(outp, errors="replace").read()
    m = None
    for m in STATS_RE.finditer(out):
        pass
    if m is None:
        sm = re.search(r"The number of states generated: (\d+)", out)
        if sm:
            class _M:
                def __init__(self, n):
                    self.n = n
                def group(self, i):
                    return self.n
            m = _M(sm.group(1))
    rec = {"module": module, "cfg": cfg, "overrides": overrides or {}, "wall_s": round(wall, 2), "rc": rc,
           "states_generated": int(m.group(1)) if m else 0, "distinct_states": int(m.group(2)) if m else 0,
           "mode": "simulate" if simulate else "bfs"}
    ctx.tlc_runs.append(rec)
    return rc, out, rec, d


BEH_RE = re.compile(r'^<<"BEHAVIOUR", "(.*)">>$')


def tla_unescape(s):
    return s.replace('\\"', '"').replace("\\\\", "\\")


def generate(ctx, cfg, module="YorkieGen", overrides=None, simulate=None, timeout=900, workers=None):
    """Runs a generation config; returns the list of behaviours (lists of steps)."""
    rc, out, rec, d = run_tlc(ctx, module, cfg, overrides=overrides, simulate=simulate, timeout=timeout, workers=workers)
    behs = []
    seen = set()
    for line in out.splitlines():
        m = BEH_RE.match(line.strip())
        if m:
            txt = tla_unescape(m.group(1))
            if txt in seen:
                continue
            seen.add(txt)
            behs.append(json.loads(txt))
    if rc not in (0,) and not simulate:
        raise Infra("TLC generation %s failed rc=%s:\n%s" % (cfg, rc, out[-3000:]))
    if simulate and rc not in (0, -9, 124) and not behs:
        raise Infra("TLC simulation %s failed rc=%s:\n%s" % (cfg, rc, out[-3000:]))
    rec["behaviours"] = len(behs)
    shutil.rmtree(d, ignore_errors=True)
    return behs


def model_check(ctx, module, cfg, overrides=None, timeout=1800, workers=None, extra=None):
    """Exhaustive check of a design-level configuration. Returns (ok, out, rec)."""
    rc, out, rec, d = run_tlc(ctx, module, cfg, overrides=overrides, timeout=timeout, workers=workers, extra=extra)
    shutil.rmtree(d, ignore_errors=True)
    if rc == -9:
        raise Infra("TLC %s/%s timed out" % (module, cfg))
    if rc not in (0, 12, 13):   # 12: safety violation, 13: liveness violation
        raise Infra("TLC %s/%s failed rc=%s:\n%s" % (module, cfg, rc, out[-3000:]))
    rec["violation"] = rc != 0
    return rc == 0, out, rec


# --------------------------------------------------------------------------- harness

def wrap(steps, bid, **kw):
    b = {"id": bid, "nclients": kw.get("nclients", 2), "docs": kw.get("docs", ["d1"]),
         "kinds": kw.get("kinds", ["o", "a", "t", "n"]), "init": kw.get("init", []),
         "threshold": kw.get("threshold", 0), "interval": kw.get("interval", 0),
         "setup": kw.get("setup", "none"), "steps": steps, "final": kw.get("final", "quiesce"),
         "family": kw.get("family", ""), "guards": kw.get("guards", [])}
    return b


def execute(ctx, behaviours, name, server_flags=None, timeout=1800, shards=None, subcmd="run"):
    """Executes behaviours on the real stack. Returns list of trace files."""
    if not behaviours:
        return []
    d = ctx.sub("exec-" + name)
    inp = os.path.join(d, "behaviours.ndjson")
    with open(inp, "w") as f:
        for b in behaviours:
            f.write(json.dumps(b) + "\n")
    n = shards or max(1, min(NCPU, len(behaviours) // 25))
    procs = []
    for i in range(n):
        out = os.path.join(d, "trace-%d.ndjson" % i)
        cmd = [ctx.yvh, subcmd, "-in", inp, "-out", out, "-shard", str(i), "-nshards", str(n)] + (server_flags or [])
        procs.append((out, subprocess.Popen(cmd, stdout=subprocess.PIPE, stderr=subprocess.PIPE, text=True)))
    traces = []
    for out, p in procs:
        try:
            so, se = p.communicate(timeout=timeout)
        except subprocess.TimeoutExpired:
            p.kill()
            raise Infra("harness timed out")
        if p.returncode != 0:
            raise Infra("harness failed rc=%s: %s %s" % (p.returncode, so[-2000:], se[-4000:]))
        traces.append(out)
    ctx.count("behaviours_executed", len(behaviours))
    return traces


VIOLS_RE = re.compile(r'^<<"VIOLS", "(.*)">>$')


def validate(ctx, traces, module="YorkieTrace", cfg="YorkieTrace.cfg", timeout=1800, env_extra=None):
    """Feeds recorded traces to the trace specification. Returns list of
    violations [{tag,tid,line,trace}] ; raises Infra if a trace is not accepted."""
    # at most VALIDATORS JVMs at a time, each with a bounded heap: sixteen validators with the wrapper's default heap
    # (25% of RAM each) were killed by the kernel's OOM killer in a thorough run
    viols = []
    traces = list(traces)
    for i in range(0, len(traces), VALIDATORS):
        viols += _validate_batch(ctx, traces[i:i + VALIDATORS], module, cfg, timeout, env_extra)
    return viols


VALIDATORS = 6


def _validate_batch(ctx, traces, module, cfg, timeout, env_extra, retry=True):
    procs = []
    for t in traces:
        d = tempfile.mkdtemp(prefix="tv-", dir=ctx.scratch)
        for f in os.listdir(SPEC):
            if f.endswith(".tla"):
                shutil.copy(os.path.join(SPEC, f), d)
        shutil.copy(os.path.join(SPEC, "cfg", cfg), os.path.join(d, "run.cfg"))
        tmp = os.path.join(d, "tmp")
        os.makedirs(tmp)
        env = _tlc_env(tmp)
        env["JAVA_TOOL_OPTIONS"] += " -Xmx5g"
        env["YTRACE"] = t
        if env_extra:
            env.update(env_extra)
        cmd = ["tlc", "-workers", "1", "-metadir", os.path.join(d, "md"), "-config", "run.cfg", module + ".tla"]
        fo = open(os.path.join(d, "out.txt"), "w")
        procs.append((t, d, fo, subprocess.Popen(cmd, cwd=d, env=env, stdout=fo, stderr=subprocess.STDOUT), time.time()))
    viols = []
    for t, d, fo, p, t0 in procs:
        try:
            p.wait(timeout=timeout)
        except subprocess.TimeoutExpired:
            p.kill()
            raise Infra("trace validation timed out")
        fo.close()
        out = open(os.path.join(d, "out.txt"), errors="replace").read()
        nlines = sum(1 for _ in open(t))
        accepted = ('"TRACE-ACCEPTED", %d' % nlines) in out and "Model checking completed. No error" in out
        if not accepted and retry and p.returncode in (-9, 137, 134, 1) and "Error:" not in out:
            # the JVM died without a TLC verdict (killed, out of memory): once more, alone
            shutil.rmtree(d, ignore_errors=True)
            viols += _validate_batch(ctx, [t], module, cfg, timeout, env_extra, retry=False)
            continue
        if not accepted:
            raise Infra("trace %s not accepted by %s:\n%s" % (t, module, out[-4000:]))
        m = None
        for line in out.splitlines():
            mm = VIOLS_RE.match(line.strip())
            if mm:
                m = mm
        if m is None:
            raise Infra("no VIOLS line in validator output:\n" + out[-2000:])
        for v in json.loads(tla_unescape(m.group(1))):
            v["trace"] = t
            viols.append(v)
        sm = None
        for sm in STATS_RE.finditer(out):
            pass
        ctx.count("trace_events_validated", nlines)
        ctx.count("trace_states", int(sm.group(2)) if sm else 0)
        ctx.count("trace_files_validated", 1)
        shutil.rmtree(d, ignore_errors=True)
    return viols


def trace_stats(ctx, traces):
    """Vacuity control: counts how often the decisive mechanisms actually fired."""
    last_g = {}
    for t in traces:
        for line in open(t):
            e = json.loads(line)
            ev = e["ev"]
            if ev == "Init":
                last_g = {}
            elif ev == "Restore":
                if e.get("ok"):
                    ctx.count("restores_ok")
            elif ev == "PP":
                ctx.count("pp_requests")
                if e["res"]["snap"]:
                    ctx.count("snapshot_responses")
                if not e["ok"]:
                    ctx.count("pp_errors")
                if e.get("rows"):
                    ctx.count("log_rows", len(e["rows"]))
            elif ev in ("Attach", "Sync", "Detach", "Edit", "Undo", "Redo", "Remove"):
                r = e.get("rep")
                if r and "garbage" in r:
                    k = (e["c"], e["d"], r.get("sess"))
                    if k in last_g and r["garbage"] < last_g[k]:
                        ctx.count("garbage_purged", last_g[k] - r["garbage"])
                    last_g[k] = r["garbage"]
                if ev == "Sync" and e.get("fired"):
                    ctx.count("faults_fired")
                    ctx.count("fault_" + e.get("fault", "?"))
                if ev == "Edit":
                    ctx.count("edits_" + e.get("outcome", "?"))
                    g = (e.get("args") or {}).get("guard")
                    if g:
                        ctx.count("guard_" + g)
                if ev in ("Undo", "Redo"):
                    ctx.count(ev.lower() + "s")
            elif ev == "Build":
                ctx.count("builds")
            elif ev == "Compact":
                ctx.count("compactions_ok" if e["ok"] else "compactions_refused")
            elif ev == "Skip":
                ctx.count("skipped_steps")


def count_traces(traces):
    n = 0
    for t in traces:
        for line in open(t):
            if line.startswith('{"') and '"ev":"Init"' in line:
                n += 1
    return n


def trace_events(trace, tid):
    """Events of one behaviour inside a concatenated trace."""
    out = []
    on = False
    for line in open(trace):
        e = json.loads(line)
        if e["ev"] == "Init":
            on = e["id"] == tid
        if on:
            out.append(e)
    return out


# --------------------------------------------------------------------------- findings & evidence

def load_findings():
    p = os.path.join(VERIF, "known-findings.json")
    if not os.path.exists(p):
        return []
    return json.load(open(p)).get("findings", [])


def finish(ctx, level, violations, known_hits, coverage, assumptions):
    """Writes evidence, prints verdict lines, returns exit code."""
    OUT = os.environ.get("VERIF_OUT", VERIF)   # own tooling only: where evidence and replays go
    os.makedirs(os.path.join(OUT, "evidence"), exist_ok=True)
    os.makedirs(os.path.join(OUT, "replays"), exist_ok=True)
    for f in os.listdir(os.path.join(OUT, "replays")):
        if f.startswith(ctx.prop + "-") and ".min" not in f:
            os.remove(os.path.join(OUT, "replays", f))
    for f, what in sorted(known_hits.items()):
        print("KNOWN-FINDING: property=%s %s" % (ctx.prop, what))
    n = 0
    for v in violations:
        n += 1
        path = os.path.join(OUT, "replays", "%s-%d.json" % (ctx.prop, n))
        json.dump(v, open(path, "w"), indent=1)
        print("VIOLATION property=%s replay=%s" % (ctx.prop, path))
        if n >= 20:
            break
    cov = dict(coverage)
    # a few generated histories plus the samples of the other parts of the check (stress, lifecycle, literals, matrix ...)
    cov.setdefault("samples", (ctx.samples[:4] + [x for x in ctx.samples[4:] if not (isinstance(x, dict) and "steps" in x)][:10]) or ["(none)"])
    cov["tlc_runs"] = ctx.tlc_runs
    cov["counters"] = ctx.counters
    ev = {"property_id": ctx.prop, "tier": ctx.tier, "seed": getattr(ctx, "given_seed", ctx.seed), "effective_seed": ctx.seed, "level": level, "coverage": cov,
          "assumptions": assumptions, "wall_s": round(time.time() - ctx.t0, 1), "violations": len(violations),
          "known_findings_reproduced": sorted(known_hits.keys()), "notes": ctx.notes}
    json.dump(ev, open(os.path.join(OUT, "evidence", ctx.prop + ".json"), "w"), indent=1)
    return 1 if violations else 0
