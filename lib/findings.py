"""Known findings. A listed finding is identified by its reproducer behaviour
(findings/<id>.json) and the invariant tags it violates there. Exploration avoids
the trigger of every open finding through a named guard in the harness, so any
violation found by exploration is new and is reported as VIOLATION. The file is
never written at run time."""
import json
import os

from core import VERIF, execute, validate


def open_findings(prop):
    p = os.path.join(VERIF, "known-findings.json")
    if not os.path.exists(p):
        return []
    return [f for f in json.load(open(p)).get("findings", []) if f.get("status") == "open" and prop in f["properties"]]


def run_reproducers(ctx, prop):
    """Runs the reproducers of the open findings of `prop` with the guards off.
    Returns {id: what} for those that still violate their listed invariants."""
    hits = {}
    for f in open_findings(prop):
        spec = json.load(open(os.path.join(VERIF, f["reproducer"])))
        kind = spec.get("kind", "behaviour")
        if kind not in ("behaviour", "gates"):
            continue
        flags = list(spec.get("server_flags", [])) + ["-noguards"]
        traces = execute(ctx, spec["behaviours"], "kf-" + f["id"], server_flags=flags, shards=1,
                         subcmd="gates" if kind == "gates" else "run")
        viols = validate(ctx, traces)
        tags = {v["tag"] for v in viols}
        if tags & set(spec["expect_tags"]):
            hits[f["id"]] = "%s [%s] %s" % (f["id"], ",".join(sorted(tags & set(spec["expect_tags"]))), f["what"][:160])
        else:
            ctx.notes.append("finding %s no longer reproduces (violated now: %s)" % (f["id"], sorted(tags)))
    return hits


# --------------------------------------------------------------------------
# Trigger predicates: a few open findings cannot be avoided by a guard because
# their trigger is not visible to the acting replica. For those, a violation
# found by exploration is attributed to the finding only if the behaviour's own
# trace contains the finding's specific trigger pattern AND the failure has the
# listed shape; everything else is reported.

def _array_gc_order(v, events):
    """KF-ARRAY-GC-ORDER: an insert/move/append anchored on (or moving) an array
    element that ANOTHER client deletes (or replaces) in the same history, the failure
    being a silent content difference (no error anywhere in the trace)."""
    if v["tag"] not in ("RefEquiv", "Converged", "BuildEquiv"):
        return False
    if any(e.get("err") for e in events if e["ev"] in ("Sync", "Attach", "Detach", "Ref", "Build", "Undo", "Redo")):
        return False
    deleted = {}   # value -> set of clients that deleted it
    anchors = []   # (client, value)
    for e in events:
        if e["ev"] != "Edit" or e.get("outcome") != "ok":
            continue
        a = e.get("args") or {}
        if "deleted" in a:
            deleted.setdefault(a["deleted"], set()).add(e["c"])
        if "anchor" in a:
            anchors.append((e["c"], a["anchor"]))
        if "moved" in a:
            anchors.append((e["c"], a["moved"]))
    return any(val in deleted and (deleted[val] - {c}) for c, val in anchors)


TRIGGERS = {"KF-ARRAY-GC-ORDER": _array_gc_order}


def attribute(prop, v, events):
    """Returns the id of the open finding whose trigger predicate explains v, or None."""
    for f in open_findings(prop):
        t = TRIGGERS.get(f["id"])
        if t and t(v, events):
            return f
    return None
