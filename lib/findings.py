"""Known findings. A listed finding is identified by its reproducer behaviour
(findings/<id>.json) and the invariant tags it violates there. Exploration avoids
the trigger of every open finding through a named guard in the harness, so any
violation found by exploration is new and is reported as VIOLATION. The file is
never written at run time."""
import json
import os

from core import VERIF, execute, validate


def open_findings(prop):
    p = os.path.join(VERIF, "known-findings.json")
    if not os.path.exists(p):
        return []
    return [f for f in json.load(open(p)).get("findings", []) if f.get("status") == "open" and prop in f["properties"]]


def run_reproducers(ctx, prop):
    """Runs the reproducers of the open findings of `prop` with the guards off.
    Returns {id: what} for those that still violate their listed invariants."""
    hits = {}
    for f in open_findings(prop):
        if not f["reproducer"].startswith("findings/"):
            continue   # identified by catalogue cell, re-confirmed by the catalogue run itself
        spec = json.load(open(os.path.join(VERIF, f["reproducer"])))
        kind = spec.get("kind", "behaviour")
        if kind not in ("behaviour", "gates"):
            continue
        flags = list(spec.get("server_flags", [])) + ["-noguards"]
        traces = execute(ctx, spec["behaviours"], "kf-" + f["id"], server_flags=flags, shards=1,
                         subcmd="gates" if kind == "gates" else "run")
        viols = validate(ctx, traces)
        tags = {v["tag"] for v in viols}
        if tags & set(spec["expect_tags"]):
            hits[f["id"]] = "%s [%s] %s" % (f["id"], ",".join(sorted(tags & set(spec["expect_tags"]))), f["what"][:160])
        else:
            ctx.notes.append("finding %s no longer reproduces (violated now: %s)" % (f["id"], sorted(tags)))
    return hits


# --------------------------------------------------------------------------
# Trigger predicates: a few open findings cannot be avoided by a guard because
# their trigger is not visible to the acting replica. For those, a violation
# found by exploration is attributed to the finding only if the behaviour's own
# trace contains the finding's specific trigger pattern AND the failure has the
# listed shape; everything else is reported.

def _array_gc_order(v, events):
    """KF-ARRAY-GC-ORDER: an insert/move/append anchored on (or moving) an array
    element that ANOTHER client deletes, replaces or moves away in the same history, the failure
    being a silent content difference (no error anywhere in the trace)."""
    if v["tag"] not in ("RefEquiv", "Converged", "BuildEquiv"):
        return False
    if any(e.get("err") and "injected storage fault" not in e["err"] for e in events
           if e["ev"] in ("Sync", "Attach", "Detach", "Ref", "Build", "Undo", "Redo")):
        return False
    deleted = {}   # value -> set of clients that deleted it
    anchors = []   # (client, value)
    for e in events:
        if e["ev"] != "Edit" or e.get("outcome") != "ok":
            continue
        a = e.get("args") or {}
        if "deleted" in a:
            deleted.setdefault(a["deleted"], set()).add(e["c"])
        if "moved" in a:
            # a move abandons the element's slot (a dead slot that GC purges) just like a deletion does
            deleted.setdefault(a["moved"], set()).add(e["c"])
        if "anchor" in a:
            anchors.append((e["c"], a["anchor"]))
        if "moved" in a:
            anchors.append((e["c"], a["moved"]))
    return any(val in deleted and (deleted[val] - {c}) for c, val in anchors)


def _compaction_pair(v, events):
    """For a CompactionKeepsContent violation: (content of the never-collecting reference at the head of the old
    log, content the compacted log yields), else None."""
    if v["tag"] != "CompactionKeepsContent":
        return None
    ev = v.get("event") or {}
    if ev.get("ev") != "Ref":
        return None
    before = None
    for e in events:
        if e["ev"] == "Compact" and e.get("ok"):
            cut = before
        if e["ev"] == "Ref":
            if e.get("s") == ev.get("s") and e.get("epoch") == ev.get("epoch") and e.get("content") == ev.get("content"):
                break
            before = e["content"] if e.get("epoch") != ev.get("epoch") else before
    return (before, ev.get("content")) if before is not None else None


def _text_gc_order(v, events):
    """KF-RGA-GC-ORDER (text): one client deletes text while another client
    inserts text in the same history, and the failure is a silent difference in
    the ORDER of the text only: every replica and the reference hold the same
    multiset of characters at the end."""
    import json as _json
    if v["tag"] not in ("RefEquiv", "Converged", "BuildEquiv", "CompactionKeepsContent"):
        return False
    if any(e.get("err") and "injected storage fault" not in e["err"] and "epoch mismatch" not in e["err"] and "document is attached" not in e["err"]
           for e in events if e["ev"] in ("Sync", "Attach", "Detach", "Ref", "Build", "Undo", "Redo")):
        return False
    deleters, inserters = set(), set()
    for e in events:
        if e["ev"] == "Edit" and e.get("outcome") == "ok" and (e.get("op") or {}).get("k") == "txt.edit":
            a = e.get("args") or {}
            if a.get("to", 0) > a.get("from", 0):
                deleters.add(e["c"])
            if a.get("s"):
                inserters.add(e["c"])
    if not any(d != i for d in deleters for i in inserters):
        return False
    # the disagreement itself, at the violating event: the replica (or the server's
    # rebuild) against the reference at the same log prefix
    ev = v.get("event") or {}
    refs = {e["s"]: e["content"] for e in events if e["ev"] == "Ref"}
    bag = lambda doc: "".join(sorted("".join(x.get("val", "") for x in doc.get("t", []))))
    rest = lambda doc: _json.dumps({k: x for k, x in doc.items() if k != "t"}, sort_keys=True)

    def order_only(mine, theirs):
        try:
            a, b = _json.loads(mine), _json.loads(theirs)
        except Exception:
            return False
        return bag(a) == bag(b) and rest(a) == rest(b) and a.get("t") != b.get("t")

    cp = _compaction_pair(v, events)
    if v["tag"] == "CompactionKeepsContent":
        # the compacted log freezes what the server's (collecting) rebuild shows; the reference never collects
        return cp is not None and order_only(cp[1], cp[0])
    if ev.get("ev") == "Build":
        n = ev.get("s")
        return n in refs and order_only(ev.get("content"), refs[n])
    if ev.get("ev") == "Ref":
        # the reference reached prefix n: the replicas already at n are the ones that disagree
        n = ev.get("s")
        latest = {}
        for e in events:
            if e is ev or (e["ev"] == "Ref" and e["s"] == n):
                break
            if e.get("rep") and e["rep"].get("cp"):
                latest[e["c"]] = e["rep"]
        bad = [r["content"] for r in latest.values() if r["cp"][0] == n and not r.get("pend") and r["content"] != ev["content"]]
        return bool(bad) and all(order_only(c, ev["content"]) for c in bad)
    if ev.get("rep"):
        n = (ev["rep"].get("cp") or [None])[0]
        return n in refs and order_only(ev["rep"].get("content"), refs[n])
    return False


def _tree_gc_order(v, events):
    """KF-TREE-GC-ORDER: one client deletes a tree node (element or text) while another
    client inserts one in the same history, and the failure is a silent difference in the
    ORDER of sibling nodes only (the serialised trees hold the same multiset of characters)."""
    import json as _json
    if v["tag"] not in ("RefEquiv", "Converged", "BuildEquiv"):
        return False
    if any(e.get("err") and "injected storage fault" not in e["err"] for e in events
           if e["ev"] in ("Sync", "Attach", "Detach", "Ref", "Build", "Undo", "Redo")):
        return False
    deleters, inserters = set(), set()
    for e in events:
        if e["ev"] == "Edit" and e.get("outcome") == "ok" and (e.get("op") or {}).get("k") == "tree.edit":
            m = (e.get("args") or {}).get("mode")
            if m in ("delelem", "deltext", "reptext"):
                deleters.add(e["c"])
            if m in ("inselem", "instext", "reptext"):
                inserters.add(e["c"])
    if not any(d != i for d in deleters for i in inserters):
        return False
    ev = v.get("event") or {}
    refs = {e["s"]: e["content"] for e in events if e["ev"] == "Ref"}
    tree = lambda doc: _json.dumps(doc.get("tr") or {}, sort_keys=True)
    rest = lambda doc: _json.dumps({k: x for k, x in doc.items() if k != "tr"}, sort_keys=True)

    def order_only(mine, theirs):
        # the same multiset of characters in the serialised tree (same nodes, same text), another order
        try:
            a, b = _json.loads(mine), _json.loads(theirs)
        except Exception:
            return False
        return sorted(tree(a)) == sorted(tree(b)) and rest(a) == rest(b) and tree(a) != tree(b)

    if ev.get("ev") == "Build":
        n = ev.get("s")
        return n in refs and order_only(ev.get("content"), refs[n])
    if ev.get("ev") == "Ref":
        n = ev.get("s")
        latest = {}
        for e in events:
            if e is ev or (e["ev"] == "Ref" and e["s"] == n):
                break
            if e.get("rep") and e["rep"].get("cp"):
                latest[e["c"]] = e["rep"]
        bad = [r["content"] for r in latest.values() if r["cp"][0] == n and not r.get("pend") and r["content"] != ev["content"]]
        return bool(bad) and all(order_only(c, ev["content"]) for c in bad)
    if ev.get("rep"):
        n = (ev["rep"].get("cp") or [None])[0]
        return n in refs and order_only(ev["rep"].get("content"), refs[n])
    return False


def _undo_restore_peer_purged(v, events):
    """KF-UNDO-RESTORE-PEER-PURGED: the history undoes/redoes a text or tree edit and the
    failure is an order-only difference: the replica and the reference at the same log prefix
    hold the same multiset of characters in their whole content."""
    if v["tag"] not in ("RefEquivN", "ConvergedN", "RefEquiv", "Converged", "BuildEquiv"):
        return False
    if any(e.get("err") and "injected storage fault" not in e["err"] for e in events
           if e["ev"] in ("Sync", "Attach", "Detach", "Ref", "Build", "Undo", "Redo")):
        return False
    kinds = {(e.get("op") or {}).get("k") for e in events if e["ev"] == "Edit"}
    if not any(e["ev"] in ("Undo", "Redo") for e in events) or not (kinds & {"txt.edit", "tree.edit"}):
        return False
    ev = v.get("event") or {}
    refs = {e["s"]: e["content"] for e in events if e["ev"] == "Ref"}

    def order_only(mine, theirs):
        return mine is not None and theirs is not None and mine != theirs and sorted(mine) == sorted(theirs)

    if ev.get("ev") == "Build":
        n = ev.get("s")
        return n in refs and order_only(ev.get("content"), refs[n])
    if ev.get("ev") == "Ref":
        n = ev.get("s")
        latest = {}
        for e in events:
            if e is ev or (e["ev"] == "Ref" and e["s"] == n):
                break
            if e.get("rep") and e["rep"].get("cp"):
                latest[e["c"]] = e["rep"]
        bad = [r["content"] for r in latest.values() if r["cp"][0] == n and not r.get("pend") and r["content"] != ev["content"]]
        return bool(bad) and all(order_only(c, ev["content"]) for c in bad)
    if ev.get("rep"):
        n = (ev["rep"].get("cp") or [None])[0]
        return n in refs and order_only(ev["rep"].get("content"), refs[n])
    return False


def _undo_array_anchor_peer(v, events):
    """KF-UNDO-ANCHOR-PURGED, silent variant: the history undoes/redoes an array edit and the failure is an
    order-only difference of the array (same multiset of elements, identical remaining content): the reverse
    Add named an anchor that the disagreeing replica had already purged and fell back to another place."""
    import json as _json
    if v["tag"] not in ("RefEquiv", "Converged", "BuildEquiv", "RefEquivN", "ConvergedN"):
        return False
    if any(e.get("err") and "injected storage fault" not in e["err"] for e in events
           if e["ev"] in ("Sync", "Attach", "Detach", "Ref", "Build", "Undo", "Redo")):
        return False
    kinds = {(e.get("op") or {}).get("k") or "" for e in events if e["ev"] == "Edit"}
    if not any(e["ev"] in ("Undo", "Redo") for e in events) or not any(k.startswith("arr.") for k in kinds):
        return False
    ev = v.get("event") or {}
    refs = {e["s"]: e["content"] for e in events if e["ev"] == "Ref"}

    def order_only(mine, theirs):
        try:
            a, b = _json.loads(mine), _json.loads(theirs)
        except Exception:
            return False
        ra = _json.dumps({k: x for k, x in a.items() if k != "a"}, sort_keys=True)
        rb = _json.dumps({k: x for k, x in b.items() if k != "a"}, sort_keys=True)
        la, lb = a.get("a"), b.get("a")
        return isinstance(la, list) and isinstance(lb, list) and la != lb and ra == rb and \
            sorted(_json.dumps(x, sort_keys=True) for x in la) == sorted(_json.dumps(x, sort_keys=True) for x in lb)

    if ev.get("ev") == "Build":
        n = ev.get("s")
        return n in refs and order_only(ev.get("content"), refs[n])
    if ev.get("ev") == "Ref":
        n = ev.get("s")
        latest = {}
        for e in events:
            if e is ev or (e["ev"] == "Ref" and e["s"] == n):
                break
            if e.get("rep") and e["rep"].get("cp"):
                latest[e["c"]] = e["rep"]
        bad = [r["content"] for r in latest.values() if r["cp"][0] == n and not r.get("pend") and r["content"] != ev["content"]]
        return bool(bad) and all(order_only(c, ev["content"]) for c in bad)
    if ev.get("rep"):
        n = (ev["rep"].get("cp") or [None])[0]
        return n in refs and order_only(ev["rep"].get("content"), refs[n])
    return False


def _undo_move_anchor(v, events):
    """KF-UNDO-MOVE-ANCHOR-PURGED: the history undoes/redoes an array move and a
    replica rejects a change with 'MoveAfter ...: child not found'."""
    kinds = {(e.get("op") or {}).get("k") for e in events if e["ev"] == "Edit"}
    if not any(e["ev"] in ("Undo", "Redo") for e in events) or not (kinds & {"arr.mov", "arr.movfront", "arr.movlast"}):
        return False
    return any("MoveAfter" in (e.get("err") or "") and "child not found" in (e.get("err") or "") for e in events)


TRIGGERS = {"KF-ARRAY-GC-ORDER": _array_gc_order, "KF-TEXT-GC-ORDER": _text_gc_order, "KF-TREE-GC-ORDER": _tree_gc_order, "KF-UNDO-RESTORE-PEER-PURGED": _undo_restore_peer_purged, "KF-UNDO-ANCHOR-PURGED": _undo_array_anchor_peer, "KF-UNDO-MOVE-ANCHOR-PURGED": _undo_move_anchor}


def _compaction_gc_order(prop, v, events):
    """CompactionKeepsContent whose only difference is an ORDER (arrays, tree): the compacted log freezes what the
    server's collecting rebuild shows while the reference never collects - the array / tree GC-order findings."""
    import json as _json
    cp = _compaction_pair(v, events)
    if cp is None:
        return None
    if any(e.get("err") and not any(x in e["err"] for x in ("injected storage fault", "epoch mismatch", "document is attached"))
           for e in events if e["ev"] in ("Sync", "Attach", "Detach", "Ref", "Build", "Undo", "Redo")):
        return None
    try:
        a, b = _json.loads(cp[1]), _json.loads(cp[0])
    except Exception:
        return None
    diff = [k for k in set(a) | set(b) if a.get(k) != b.get(k)]
    if len(diff) != 1 or sorted(_json.dumps(a[diff[0]], sort_keys=True)) != sorted(_json.dumps(b[diff[0]], sort_keys=True)):
        return None
    want = {"a": "KF-ARRAY-GC-ORDER", "tr": "KF-TREE-GC-ORDER", "t": "KF-TEXT-GC-ORDER"}.get(diff[0])
    editors = {e["c"] for e in events if e["ev"] == "Edit" and e.get("outcome") == "ok" and (e.get("op") or {}).get("k", "") != "setup"}
    if want is None or len(editors) < 2:
        return None
    return next((f for f in open_findings(prop) if f["id"] == want), None)


def attribute(prop, v, events, first=None):
    """Returns the id of the open finding whose trigger predicate explains v, or None."""
    v = dict(v, event=first)
    if v["tag"] == "CompactionKeepsContent":
        f = _compaction_gc_order(prop, v, events)
        if f is not None:
            return f
    for f in open_findings(prop):
        t = TRIGGERS.get(f["id"])
        if t and t(v, events):
            return f
    return None
