"""Known-findings matching. A finding lists the invariant tags it explains and a
signature over the violating behaviour/event; a violation matches only if all
signature parts match."""
import re


def matches(f, v):
    sig = f.get("signature", {})
    if v["tag"] not in sig.get("tags", []):
        return False
    if "error_regex" in sig:
        errs = " | ".join(e for e in v.get("errors", []) if e)
        if not re.search(sig["error_regex"], errs):
            return False
    if "op_kinds_any" in sig:
        kinds = {s.get("op", {}).get("k") for s in (v.get("behaviour") or {}).get("steps", []) if s.get("a") == "edit"}
        if not (kinds & set(sig["op_kinds_any"])):
            return False
    if "needs_steps" in sig:
        acts = {s.get("a") for s in (v.get("behaviour") or {}).get("steps", [])}
        if not set(sig["needs_steps"]) <= acts:
            return False
    return True
