"""Known findings. A listed finding is identified by its reproducer behaviour
(findings/<id>.json) and the invariant tags it violates there. Exploration avoids
the trigger of every open finding through a named guard in the harness, so any
violation found by exploration is new and is reported as VIOLATION. The file is
never written at run time."""
import json
import os

from core import VERIF, execute, validate


def open_findings(prop):
    p = os.path.join(VERIF, "known-findings.json")
    if not os.path.exists(p):
        return []
    return [f for f in json.load(open(p)).get("findings", []) if f.get("status") == "open" and prop in f["properties"]]


def run_reproducers(ctx, prop):
    """Runs the reproducers of the open findings of `prop` with the guards off.
    Returns {id: what} for those that still violate their listed invariants."""
    hits = {}
    for f in open_findings(prop):
        spec = json.load(open(os.path.join(VERIF, f["reproducer"])))
        if spec.get("kind", "behaviour") != "behaviour":
            continue
        flags = list(spec.get("server_flags", [])) + ["-noguards"]
        traces = execute(ctx, spec["behaviours"], "kf-" + f["id"], server_flags=flags, shards=1)
        viols = validate(ctx, traces)
        tags = {v["tag"] for v in viols}
        if tags & set(spec["expect_tags"]):
            hits[f["id"]] = "%s [%s] %s" % (f["id"], ",".join(sorted(tags & set(spec["expect_tags"]))), f["what"][:160])
        else:
            ctx.notes.append("finding %s no longer reproduces (violated now: %s)" % (f["id"], sorted(tags)))
    return hits
