ENGINES = [
    {"name": "tlc+yvh", "path": "/verif/bin/check", "serves_properties": [],
     "kind_free_text": "TLA+ specifications under /verif/spec checked/simulated by TLC; behaviours executed on the real stack by the Go harness /verif/harness (yvh); recorded ndjson traces validated by TLC against the trace specifications"},
]
NOTES = ("Technique family: model-based verification with explicit TLA+ specifications (spec/*.tla), TLC for exhaustive "
         "checking, behaviour generation and trace validation, bound to the implementation by executing TLC-generated "
         "behaviours on the real client/server stack and validating the recorded traces. See DESIGN.md.")
NOT_APPLICABLE = {}
MC_NOTE = ("Trusted base: TLC, the Go harness' projection (harness/world/project.go), memdb backend only (MongoDB paths cannot "
           "run here), hooks of build tag verif. Verdicts come only from invariants evaluated by TLC on traces recorded from the real code.")
TV = "TLA+ system spec (Yorkie.tla) generates behaviours with TLC; executed on the real client/server stack; recorded traces validated by TLC against YorkieTrace.tla"

def mc(text):
    return {"level": "model_checking", "text": text, "note": MC_NOTE, "technique": TV}

CHECKS = {
    "C01": mc("Yorkie.tla enumerates exhaustively every pair of concurrent edits (per container type) x every placement of syncs; each behaviour is executed on the real stack and TLC evaluates Converged / SyncNeverFails / LogReplayable / CloneEqRoot on the recorded trace after every event. Thorough tier runs the whole enumeration plus simulated longer histories."),
    "C02": mc("Behaviours with snapshot thresholds/intervals 1..4, late attachers, cache builds/evictions; TLC checks on the trace that snapshot-fed replicas and the server rebuild equal the same-run change-fed, never-collected reference (RefEquiv, BuildEquiv) after every event, also after further edits on top. A run that served no snapshot is inconclusive (exit 2)."),
    "C03": mc("GC-biased histories (deletes, moves, overwrites, style removals, anchored inserts, idle syncs) with client GC and server snapshot GC on; TLC compares every synced replica with the never-collecting reference (RefEquiv) and checks that no sync / rebuild / log replay fails. Purges that actually happened are counted in evidence."),
    "C04": mc("Sequential schedules (incl. detach/reattach, push-only, late attach, snapshot pulls): TLC checks on every PushPull event that appended rows are dense, belong to the requester, equal the spec's Pushables exactly once, pulled ranges match the log, in order, echo-free, delivered once, no gap below checkpoints; plus exhaustive TLC check of the same invariants on the protocol model (mc_proto.cfg). Concurrent schedules: see C16."),
    "C06": mc("Clock rules as constraints on logged change ids: OwnEntry, UniqueTicket, AuthorMonotone, Causal (ghost 'seen' state per replica computed by the spec from delivered rows) and MinVVSound against the LOGGED request vectors of the attached participating clients; exhaustive check of RowSound/OwnEntry/UniqueTicket on the protocol model."),
    "C08": mc("Programs with updaters failing or panicking after the operation ran on the clone; TLC checks UpdateAtomic (content, pending changes, checkpoint, vector, undo/redo flags unchanged) and CloneEqRoot (Root() == Marshal()) after every event of every kind."),
    "C10": mc("Histories with (forced) compactions, stale clients syncing/detaching, fresh attaches; TLC checks CompactionKeepsContent (reference of the new epoch equals the content before), StaleAddsNoRows, StaleRefused, EpochStrictlyIncreases, CompactRefusedWhileAttached, CompactNeverFailsOnContent. A run without a successful compaction is inconclusive."),
    "C11": mc("Lifecycle histories (detach, reattach, remove, deactivate, push-only) generated from the spec's state machine; TLC checks WriteOnlyWhenActive/Attached, RemovedStoresNothing, RemovedIsSticky, Detach/RemoveTakesEffect, DeactivateDetachesAll/NeverFails on the trace."),
    "C12": mc("Presence sets mixed with edits, attach/detach/deactivate, snapshot pulls, presence-disabled documents incl. a disagreeing late attacher; TLC checks PresenceConverged against the reference, NoPresenceRows / NoPresenceInResponses / NoPresenceInSnapshots."),
    "C15": mc("Undo/redo mixed with edits and syncs on two clients (arrays without moves, counters); TLC checks Converged, RefEquiv, SyncNeverFails, UndoRedoNeverFails. Object/text/tree/move undo under concurrency are listed known findings (reproducers re-run on every check)."),
}
