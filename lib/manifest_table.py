ENGINES = [
    {"name": "tlc+yvh", "path": "/verif/bin/check", "serves_properties": [],
     "kind_free_text": "TLA+ specifications under /verif/spec checked/simulated by TLC; behaviours executed on the real stack by the Go harness /verif/harness (yvh); recorded ndjson traces validated by TLC against the trace specifications"},
]
NOTES = ("Technique family: model-based verification with explicit TLA+ specifications (spec/*.tla), TLC for exhaustive "
         "checking, behaviour generation and trace validation, bound to the implementation by executing TLC-generated "
         "behaviours on the real client/server stack and validating the recorded traces. See DESIGN.md.")
NOT_APPLICABLE = {}
MC_NOTE = ("Trusted base: TLC, the Go harness' projection (harness/world/project.go), memdb backend only (MongoDB paths cannot "
           "run here), hooks of build tag verif. Verdicts come only from invariants evaluated by TLC on traces recorded from the real code.")
CHECKS = {
    "C01": {"level": "model_checking",
            "text": "Yorkie.tla enumerates (exhaustively for pairs, by simulation beyond) histories x sync schedules; each is executed on the real client/server stack and TLC validates the recorded trace against YorkieTrace.tla, evaluating Converged / SyncNeverFails / LogReplayable after every event.",
            "note": MC_NOTE, "technique": "TLA+ spec + TLC behaviour generation + trace validation"},
}
