"""Per-property checks. Each check_Cxx(ctx) returns
(level, violations, known_hits, coverage, assumptions)."""
import json
import os

from core import (Infra, build_harness, count_traces, execute, generate, load_findings, model_check,
                  trace_events, validate, wrap, VERIF)
import findings as F

O = lambda k, a=0, b=0, v=0: {"k": k, "a": a, "b": b, "v": v}

TYPES = {
    "arr": {"alphabet": "OpsArr", "kinds": ["a"], "init": [O("arr.add", v=1), O("arr.add", v=2), O("arr.add", v=3)]},
    "obj": {"alphabet": "OpsObj", "kinds": ["o"], "init": [O("obj.set", 0, 0, 1), O("obj.setobj", 1, 0, 2)]},
    "txt": {"alphabet": "OpsTxt", "kinds": ["t"], "init": [O("txt.edit", 0, 0, 2), O("txt.edit", 2, 0, 4), O("txt.style", 1, 1, 1)]},
    "cnt": {"alphabet": "OpsCnt", "kinds": ["n"], "init": []},
    "tree": {"alphabet": "OpsTree", "kinds": ["tr"], "init": []},
}
MIXINIT = TYPES["arr"]["init"] + TYPES["obj"]["init"] + TYPES["txt"]["init"]
MIXKINDS = ["o", "a", "t", "n", "tr"]


def sample(ctx, items, n):
    if n is None or len(items) <= n:
        return list(items)
    idx = sorted(ctx.rng.sample(range(len(items)), n))
    return [items[i] for i in idx]


def canon(steps):
    return json.dumps(steps, sort_keys=True)


def run_family(ctx, name, behaviours, tags, server_flags=None):
    """Executes behaviours, validates the traces with TLC, returns the violations
    (restricted to `tags`) as replay records."""
    if not behaviours:
        return []
    byid = {b["id"]: b for b in behaviours}
    traces = execute(ctx, behaviours, name, server_flags=server_flags)
    viols = validate(ctx, traces)
    ctx.count("traces_validated", count_traces(traces))
    for b in behaviours[:2]:
        if len(ctx.samples) < 6:
            ctx.samples.append({"family": name, "steps": b["steps"][:12], "nclients": b["nclients"]})
    out = []
    seen = set()
    for v in sorted(viols, key=lambda v: (v["tid"], v["line"])):
        ctx.count("raw_violations_" + v["tag"])
        if v["tag"] not in tags:
            continue
        if (v["tid"], v["tag"]) in seen:
            continue
        seen.add((v["tid"], v["tag"]))
        evs = trace_events(v["trace"], v["tid"])
        # the event at the violating line (line numbers are global in the concatenated file)
        first = None
        n = 0
        for line in open(v["trace"]):
            n += 1
            if n == v["line"]:
                first = json.loads(line)
                break
        out.append({"property": ctx.prop, "tag": v["tag"], "family": name, "behaviour": byid.get(v["tid"]),
                    "server_flags": server_flags or [], "event": first,
                    "errors": [e.get("err") for e in evs if e.get("err")][:5], "seed": ctx.seed})
    return out


def split_known(ctx, viols):
    """Separates violations matching a listed known finding."""
    known = {}
    fresh = []
    fl = [f for f in load_findings() if f.get("status", "open") == "open"]
    for v in viols:
        hit = None
        for f in fl:
            if ctx.prop in f["properties"] and F.matches(f, v):
                hit = f
                break
        if hit:
            known[hit["id"]] = hit["what"]
            ctx.count("known_" + hit["id"])
        else:
            fresh.append(v)
    return fresh, known


def gen_pairs(ctx, typ, nsample, clients="Seq2", late="{}", maxsyncs=1, feat="{}", threshold=1000):
    t = TYPES[typ]
    behs = generate(ctx, "gen_pairs.cfg", overrides={
        "Alphabet": t["alphabet"], "ClientSeq": clients, "InitEdits": str(1 + len(t["init"])),
        "MaxSyncs": str(maxsyncs), "Feat": feat, "Late": late, "Threshold": str(threshold)})
    total = len(behs)
    behs = sample(ctx, behs, nsample)
    n = int(clients[-1])
    out = [wrap(s, "%s-%s-%d" % (typ, clients, i), nclients=n, kinds=t["kinds"], init=t["init"], family="pairs-" + typ,
                threshold=threshold if threshold < 1000 else 0)
           for i, s in enumerate(behs)]
    return out, total


C01_TAGS = {"Converged", "SyncNeverFails", "LogReplayable", "EditNeverFails", "CloneEqRoot"}


def check_C01(ctx):
    build_harness(ctx)
    quick = ctx.tier == "quick"
    viols = []
    total = 0
    for typ in ["arr", "obj", "txt", "cnt", "tree"]:
        behs, n = gen_pairs(ctx, typ, 400 if quick else None)
        total += n
        viols += run_family(ctx, "pairs-" + typ, behs, C01_TAGS)
    fresh, known = split_known(ctx, viols)
    cov = {"states": sum(r["distinct_states"] for r in ctx.tlc_runs), "transitions": sum(r["states_generated"] for r in ctx.tlc_runs),
           "traces_validated_against_impl": ctx.counters.get("traces_validated", 0),
           "behaviours_enumerated_by_tlc": total, "exhaustive": not quick}
    return "model_checking", fresh, known, cov, ["memdb backend only"]


CHECKS = {"C01": check_C01}
