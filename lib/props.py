"""Per-property checks. Each check_Cxx(ctx) returns
(level, violations, known_hits, coverage, assumptions)."""
import json
import os

from core import (NCPU, Infra, build_harness, count_traces, trace_stats, execute, generate, model_check,
                  trace_events, validate, wrap, VERIF)
import findings as F

O = lambda k, a=0, b=0, v=0: {"k": k, "a": a, "b": b, "v": v}

TYPES = {
    "arr": {"alphabet": "OpsArr", "kinds": ["a"], "init": [O("arr.add", v=1), O("arr.add", v=2), O("arr.add", v=3)]},
    "obj": {"alphabet": "OpsObj", "kinds": ["o"], "init": [O("obj.set", 0, 0, 1), O("obj.setobj", 1, 0, 2)]},
    "txt": {"alphabet": "OpsTxt", "kinds": ["t"], "init": [O("txt.edit", 0, 0, 2), O("txt.edit", 2, 0, 4), O("txt.style", 1, 1, 1)]},
    "cnt": {"alphabet": "OpsCnt", "kinds": ["n"], "init": []},
    "tree": {"alphabet": "OpsTree", "kinds": ["tr"], "init": []},
}
MIXINIT = TYPES["arr"]["init"] + TYPES["obj"]["init"] + TYPES["txt"]["init"]
MIXKINDS = ["o", "a", "t", "n", "tr"]


def sample(ctx, items, n):
    if n is None or len(items) <= n:
        return list(items)
    idx = sorted(ctx.rng.sample(range(len(items)), n))
    return [items[i] for i in idx]


def canon(steps):
    return json.dumps(steps, sort_keys=True)


ATTRIBUTION_BUDGET = 8   # re-executions for attribution per family
MINIMAL_BUDGET = 3       # shrink-and-judge attributions per family (minutes each)


def run_family(ctx, name, behaviours, tags, server_flags=None, subcmd="run"):
    """Executes behaviours, validates the traces with TLC, returns the violations
    (restricted to `tags`) as replay records."""
    if not behaviours:
        return []
    byid = {b["id"]: b for b in behaviours}
    traces = execute(ctx, behaviours, name, server_flags=server_flags, subcmd=subcmd)
    viols = validate(ctx, traces)
    ctx.count("traces_validated", count_traces(traces))
    trace_stats(ctx, traces)
    for b in behaviours[:2]:
        if len(ctx.samples) < 6:
            ctx.samples.append({"family": name, "steps": (b.get("steps") or b.get("schedule"))[:12], "nclients": b["nclients"]})
    out = []
    seen = set()
    # KF-MINVV-AFTER-PULL: TLC evaluates the finding's trigger itself (GCSafe on the response that hands out the
    # vector); what follows from it in the same behaviour is attributed to the finding
    gcunsafe = {v["tid"] for v in viols if v["tag"] == "GCSafe"}
    attributed_tids = {}
    prefix_tried = set()
    diff_tried = set()
    unqueued = {v["tid"] for v in viols if v["tag"] == "UndoQueuesChange"}   # an undo that was not propagated: never explained away
    # RefEquiv / BuildEquiv first: a Converged violation of the same behaviour follows from them
    for v in sorted(viols, key=lambda v: (v["tid"], v["line"], v["tag"] in ("Converged", "ConvergedN"))):
        if v["tid"] in gcunsafe and v["tag"] in ("GCSafe", "SyncNeverFails", "Converged", "RefEquiv", "BuildEquiv", "BuildNeverFails") \
                and any(f["id"] == "KF-MINVV-AFTER-PULL" for f in F.open_findings(ctx.prop)):
            ctx.count("attributed_KF-MINVV-AFTER-PULL")
            ctx.attributed["KF-MINVV-AFTER-PULL"] = "minimum version vector computed after the pull range was fixed (GCSafe violated on a forced schedule)"
            continue
        ctx.count("raw_violations_" + v["tag"])
        report = v["tag"] in tags or bool(os.environ.get("VERIF_ALLTAGS"))
        # a disagreement with the reference that the check does not report may still explain (by a listed finding)
        # the Converged violation that follows from it in the same behaviour: attribute it, never report it
        if not report and v["tag"] not in ("RefEquiv", "BuildEquiv"):
            continue
        if (v["tid"], v["tag"]) in seen:
            continue
        seen.add((v["tid"], v["tag"]))
        evs = trace_events(v["trace"], v["tid"])
        # the event at the violating line (line numbers are global in the concatenated file)
        first = None
        n = 0
        for line in open(v["trace"]):
            n += 1
            if n == v["line"]:
                first = json.loads(line)
                break
        kf = F.attribute(ctx.prop, v, evs, first)
        if kf is None and v["tid"] not in attributed_tids and v["tid"] not in prefix_tried \
                and v["tag"] in DIVERGENCE_TAGS and v["tid"] in byid and subcmd == "run":
            # one response may deliver the diverging change AND a later one that amplifies the divergence, so the first
            # observable disagreement need not have the finding's shape: look for the shortest PREFIX of the behaviour
            # that already disagrees with the reference, and judge that one
            prefix_tried.add(v["tid"])
            if len(prefix_tried) <= ATTRIBUTION_BUDGET:     # (a tree on which most behaviours fail is not a tree of listed findings)
                kf = prefix_attribution(ctx, byid[v["tid"]], server_flags)
            if kf is None and len(prefix_tried) <= MINIMAL_BUDGET:
                kf = minimal_attribution(ctx, byid[v["tid"]], server_flags)
        if kf is None and v["tid"] not in attributed_tids and v["tid"] not in diff_tried and v["tid"] not in unqueued \
                and v["tag"] in ("Converged", "RefEquiv", "ConvergedN", "RefEquivN") and v["tid"] in byid and subcmd == "run":
            diff_tried.add(v["tid"])
            if len(diff_tried) <= ATTRIBUTION_BUDGET:
                kf = undo_gc_differential(ctx, byid[v["tid"]], evs, server_flags, "ncontent" if v["tag"].endswith("N") else "content")
        if kf is None and v["tid"] in attributed_tids and v["tag"] in ("Converged", "RefEquiv", "BuildEquiv", "BuildNeverFails", "SyncNeverFails", "LogReplayable",
                                                                       "ConvergedN", "RefEquivN", "CompactionKeepsContent"):
            # a behaviour whose FIRST disagreement with the reference is explained by a listed finding: once the
            # structures differ, later operations resolve differently, so what follows in the same behaviour is a
            # consequence of it
            kf = attributed_tids[v["tid"]]
        if kf is not None:
            ctx.count("attributed_" + kf["id"])
            ctx.attributed[kf["id"]] = kf["what"]
            attributed_tids[v["tid"]] = kf
            continue
        if not report:
            continue
        out.append({"property": ctx.prop, "tag": v["tag"], "family": name, "behaviour": byid.get(v["tid"]),
                    "server_flags": server_flags or [], "event": first,
                    "errors": [e.get("err") for e in evs if e.get("err")][:5], "seed": ctx.seed})
    return out


def undo_gc_differential(ctx, b, evs, server_flags, field="ncontent"):
    """KF-UNDO-RESTORE-PEER-PURGED, amplified: a peer that had purged the tombstones re-creates the restored
    characters as other nodes than the undoing replica keeps; a later range operation then covers different
    nodes there and the contents differ by more than an order. Attributed only if ALL of this holds: the history
    undoes/redoes a text or tree edit; no error anywhere; every replica that ends up disagreeing with the
    reference never executed an Undo/Redo itself (an undo that is not propagated shows on the undoer); and the
    same behaviour with garbage collection switched off on every attachment satisfies every invariant."""
    f = next((x for x in F.open_findings(ctx.prop) if x["id"] == "KF-UNDO-RESTORE-PEER-PURGED"), None)
    if f is None:
        return None
    kinds = {(e.get("op") or {}).get("k") for e in evs if e["ev"] == "Edit"}
    undoers = {e["c"] for e in evs if e["ev"] in ("Undo", "Redo")}
    if not undoers or not (kinds & {"txt.edit", "tree.edit"}):
        return None
    if any(e.get("err") for e in evs if e["ev"] in ("Sync", "Attach", "Detach", "Ref", "Build", "Undo", "Redo")):
        return None
    last, ref = {}, None
    for e in evs:
        if e.get("rep") and e.get("c"):
            last[e["c"]] = e["rep"]
        if e["ev"] == "Ref":
            ref = e
    if ref is None:
        return None
    bad = {c for c, r in last.items() if not r.get("pend") and (r.get("cp") or [None])[0] == ref["s"] and r.get(field) != ref.get(field)}
    if not bad:
        return None
    # (an undo that is NOT propagated - the undoer holds content the log lacks - is judged by UndoQueuesChange at the
    # undo itself and by the behaviour with GC off; the undoer may differ from the never-collecting reference here
    # because it purged its own tombstones before undoing: KF-UNDO-TEXT-AFTER-GC)

    nb = json.loads(json.dumps(b))
    for st in nb["steps"]:
        if st["a"] == "attach":
            st.setdefault("opt", {})["gcoff"] = True
    nb["id"] = b["id"] + "~gcoff"
    try:
        traces = execute(ctx, [nb], "gcoff-" + re_safe(b["id"]), server_flags=server_flags, shards=1)
        viols = validate(ctx, traces)
    except Infra:
        return None
    ctx.count("gc_differential_runs")
    if any(v["tag"] in ("RefEquiv", "RefEquivN", "Converged", "ConvergedN", "SyncNeverFails", "LogReplayable", "UndoRedoNeverFails", "CloneEqRoot") for v in viols):
        return None
    ctx.count("attributed_by_gc_differential_" + f["id"])
    return f


DIVERGENCE_TAGS = ("RefEquiv", "Converged", "BuildEquiv", "RefEquivN", "ConvergedN", "CompactionKeepsContent")


def shrink_steps(ctx, b, tags, server_flags, max_rounds=40):
    """Greedy step removal: the shortest sub-behaviour of b (set-up kept) that still violates one of `tags`."""
    steps = list(b["steps"])
    rounds = [0]

    def still(cands):
        rounds[0] += 1
        behs = [dict(b, steps=st, id="cand-%d" % i) for i, st in enumerate(cands)]
        traces = execute(ctx, behs, "min-" + re_safe(b["id"]), server_flags=server_flags, shards=min(8, max(1, len(behs) // 4)))
        viols = validate(ctx, traces)
        bad = {x["tid"] for x in viols if x["tag"] in tags}
        return [i for i in range(len(cands)) if "cand-%d" % i in bad]

    changed = True
    while changed and rounds[0] < max_rounds:
        changed = False
        for size in (4, 2, 1):
            i = 0
            while i < len(steps) and rounds[0] < max_rounds:
                cands, j = [], i
                while j < len(steps) and len(cands) < 24:
                    if steps[j]["a"] not in ("attach", "setupsync") or size == 1 and steps[j]["a"] not in ("setupsync",) and j > 2:
                        cands.append(steps[:j] + steps[j + size:])
                    j += 1
                if not cands:
                    break
                ok = still(cands)
                if ok:
                    steps = cands[ok[0]]
                    changed = True
                else:
                    i = j
    return steps


def minimal_attribution(ctx, b, server_flags):
    """The shortest sub-behaviour that still disagrees with the reference, judged by the trigger predicates: a listed
    finding whose own minimal pattern is contained in b and alone suffices for a divergence explains b's divergence,
    however later operations amplified it."""
    try:
        steps = shrink_steps(ctx, b, DIVERGENCE_TAGS, server_flags)
        nb = dict(b, steps=steps, id=b["id"] + "~min")
        traces = execute(ctx, [nb], "minj-" + re_safe(b["id"]), server_flags=server_flags, shards=1)
        viols = validate(ctx, traces)
    except Infra:
        return None
    ctx.count("minimal_attribution_runs")
    for v in sorted(viols, key=lambda v: (v["line"], v["tag"] in ("Converged", "ConvergedN"))):
        if v["tag"] not in DIVERGENCE_TAGS:
            continue
        evs = trace_events(v["trace"], v["tid"])
        first = None
        with open(v["trace"]) as f:
            for n, line in enumerate(f, 1):
                if n == v["line"]:
                    first = json.loads(line)
                    break
        kf = F.attribute(ctx.prop, v, evs, first)
        if kf is not None:
            ctx.count("attributed_by_minimal_" + kf["id"])
        return kf
    return None


def prefix_attribution(ctx, b, server_flags):
    """Re-executes every prefix of behaviour b (each followed by the usual quiescent syncs) and returns the listed
    finding that explains the disagreement of the SHORTEST disagreeing prefix, or None."""
    steps = b["steps"]
    if len(steps) < 4 or len(steps) > 60:
        return None
    cands = []
    for k in range(3, len(steps)):
        nb = dict(b)
        nb["steps"] = steps[:k]
        nb["id"] = "%s~p%d" % (b["id"], k)
        cands.append(nb)
    try:
        traces = execute(ctx, cands, "prefix-" + re_safe(b["id"]), server_flags=server_flags, shards=min(8, max(1, len(cands) // 4)))
        viols = validate(ctx, traces)
    except Infra:
        return None
    ctx.count("prefix_attribution_runs")
    bad = {}
    for v in viols:
        if v["tag"] in ("RefEquiv", "BuildEquiv", "Converged", "LogReplayable", "BuildNeverFails", "RefEquivN", "ConvergedN", "CompactionKeepsContent"):
            k = int(v["tid"].rsplit("~p", 1)[1])
            bad.setdefault(k, []).append(v)
    if not bad:
        return None
    k = min(bad)
    for v in sorted(bad[k], key=lambda v: (v["line"], v["tag"] == "Converged")):
        evs = trace_events(v["trace"], v["tid"])
        first = None
        with open(v["trace"]) as f:
            for n, line in enumerate(f, 1):
                if n == v["line"]:
                    first = json.loads(line)
                    break
        kf = F.attribute(ctx.prop, v, evs, first)
        if kf is not None:
            ctx.count("attributed_by_prefix_" + kf["id"])
            return kf
        return None     # the first disagreement of the shortest prefix is not a listed finding
    return None


def re_safe(s):
    import re as _re
    return _re.sub(r"[^A-Za-z0-9_.-]", "_", s)[:40]


def split_known(ctx, viols):
    """Exploration runs with the guards of all open findings on, so every
    violation it finds is new. The listed findings are (re)confirmed by their
    own reproducers."""
    known = F.run_reproducers(ctx, ctx.prop)
    for k, what in ctx.attributed.items():
        known.setdefault(k, "%s [attributed by trigger predicate] %s" % (k, what[:160]))
    return viols, known


def gen_pairs(ctx, typ, nsample, clients="Seq2", late="{}", maxsyncs=1, feat="{}", threshold=1000):
    t = TYPES[typ]
    behs = generate(ctx, "gen_pairs.cfg", overrides={
        "Alphabet": t["alphabet"], "ClientSeq": clients, "InitEdits": str(1 + len(t["init"])),
        "MaxSyncs": str(maxsyncs), "Feat": feat, "Late": late, "Threshold": str(threshold)})
    total = len(behs)
    behs = sample(ctx, behs, nsample)
    n = int(clients[-1])
    out = [wrap(s, "%s-%s-%d" % (typ, clients, i), nclients=n, kinds=t["kinds"], init=t["init"], family="pairs-" + typ,
                threshold=threshold if threshold < 1000 else 0)
           for i, s in enumerate(behs)]
    return out, total


def gen_sim(ctx, name, n, depth=120, alphabet="OpsMix", clients="Seq3", editors='{"c1", "c2", "c3"}', maxedits=4,
            maxsyncs=6, feat='{"idle"}', late="{}", threshold=1000, kinds=None, init=None, weight=40, maxsess=1,
            maxcompact=0, maxundo=0, interval=0, final="quiesce", seed_off=0, guards=None, maxfaults=0):
    kinds = kinds or MIXKINDS
    init = MIXINIT if init is None else init
    behs = generate(ctx, "gen_sim.cfg", overrides={
        "Alphabet": alphabet, "ClientSeq": clients, "Editors": editors, "MaxEdits": str(maxedits),
        "MaxSyncs": str(maxsyncs), "Feat": feat, "Late": late, "Threshold": str(threshold),
        "InitEdits": str(1 + len(init)), "SyncWeight": str(weight), "MaxSess": str(maxsess),
        "MaxCompact": str(maxcompact), "MaxUndo": str(maxundo), "MaxFaults": str(maxfaults)},
        simulate="num=%d" % n, workers=1, timeout=600,
        )
    nc = int(clients[-1])
    return [wrap(s, "%s-%d" % (name, i), nclients=nc, kinds=kinds, init=init, family=name,
                 threshold=threshold if threshold < 1000 else 0, interval=interval, final=final, guards=guards or [])
            for i, s in enumerate(behs)]


C01_TAGS = {"Converged", "SyncNeverFails", "LogReplayable", "EditNeverFails", "CloneEqRoot"}


def check_C01(ctx):
    build_harness(ctx)
    quick = ctx.tier == "quick"
    viols = []
    total = 0
    for typ in ["arr", "obj", "txt", "cnt", "tree"]:
        behs, n = gen_pairs(ctx, typ, 400 if quick else None)
        total += n
        viols += run_family(ctx, "pairs-" + typ, behs, C01_TAGS)
    # longer concurrent histories per type: several edits per client before they meet (set-then-delete against a
    # concurrent set, delete-then-insert against an insert, ...), two and three editors
    n = 100 if quick else 3000
    fams = []
    for nm, alpha, extra, w in [("arr", "OpsArr", ARR, 10), ("obj", "OpsObj", OBJ, 6), ("nest", "OpsNest", OBJ, 6), ("txt", "OpsTxt", TXT, 8),
                                ("cnt", "OpsCntWrap", dict(kinds=["n"], init=[]), 3), ("treet", "OpsTreeText", TREE, 10), ("treee", "OpsTreeElem", TREE, 6)]:
        fams.append(dict(name="multi2-" + nm, alphabet=alpha, clients="Seq2", editors=E2, feat='{"idle"}', weight=w, maxedits=3, maxsyncs=4, **extra))
        fams.append(dict(name="multi3-" + nm, alphabet=alpha, clients="Seq3", feat='{"idle"}', weight=w, maxedits=2, maxsyncs=4, **extra))
    viols += sim_families(ctx, fams, C01_TAGS, n)
    fresh, known = split_known(ctx, viols)
    return "model_checking", fresh, known, mc_cov(ctx, behaviours_enumerated_by_tlc=total, exhaustive=not quick), ["memdb backend only"]


C03_TAGS = {"Converged", "RefEquiv", "SyncNeverFails", "LogReplayable", "BuildNeverFails", "BuildEquiv", "EditNeverFails", "CloneEqRoot", "MinVVSound"}


def check_C03(ctx):
    build_harness(ctx)
    quick = ctx.tier == "quick"
    viols = []
    behs = gen_sim(ctx, "gc-sim2", 300 if quick else 3000, alphabet="OpsGC", clients="Seq2", editors='{"c1", "c2"}', weight=10)
    viols += run_family(ctx, "gc-sim2", behs, C03_TAGS)
    behs = gen_sim(ctx, "gc-sim3", 300 if quick else 3000, alphabet="OpsGC", clients="Seq3", weight=10)
    viols += run_family(ctx, "gc-sim3", behs, C03_TAGS)
    # snapshots in the GC-biased histories: what a snapshot-fed replica has purged must not be needed by a peer's unsent edit
    for th, iv in ([(2, 2)] if quick else [(1, 1), (2, 2), (3, 2)]):
        behs = gen_sim(ctx, "gc-snap-t%d" % th, 300 if quick else 3000, alphabet="OpsGC", clients="Seq3", weight=10, threshold=th, interval=iv,
                       feat='{"idle", "lateattach"}', late='{"c3"}')
        viols += run_family(ctx, "gc-snap-t%d" % th, behs, C03_TAGS)
    fresh, known = split_known(ctx, viols)
    return "model_checking", fresh, known, mc_cov(ctx), ["memdb backend only"]


def mc_cov(ctx, **extra):
    cov = {"states": sum(r["distinct_states"] for r in ctx.tlc_runs) + ctx.counters.get("trace_states", 0),
           "transitions": sum(r["states_generated"] for r in ctx.tlc_runs) + ctx.counters.get("trace_states", 0),
           "traces_validated_against_impl": ctx.counters.get("traces_validated", 0)}
    cov.update(extra)
    return cov


C02_TAGS = {"Converged", "RefEquiv", "BuildEquiv", "BuildNeverFails", "SyncNeverFails", "LogReplayable", "CloneEqRoot",
            "PresenceConverged", "NoGapBelowCheckpoint"}


def check_C02(ctx):
    build_harness(ctx)
    quick = ctx.tier == "quick"
    n = 120 if quick else 1500
    viols = []
    i = 0
    for th, iv in ([(1, 1), (2, 3), (3, 2)] if quick else [(1, 1), (1, 3), (2, 1), (2, 3), (3, 2), (4, 4)]):
        for late in ['{}', '{"c3"}']:
            i += 1
            behs = gen_sim(ctx, "snap-t%d-i%d-%d" % (th, iv, i), n, alphabet="OpsMix", clients="Seq3", threshold=th, interval=iv,
                           late=late, feat='{"idle", "build", "evict", "lateattach"}', weight=40, maxedits=3)
            viols += run_family(ctx, "snap-t%d-i%d-%d" % (th, iv, i), behs, C02_TAGS)
    for th, iv, alpha, kinds, init in [(1, 1, "OpsNest", ["o"], TYPES["obj"]["init"]), (2, 2, "OpsArr", ["a"], TYPES["arr"]["init"]),
                                      (2, 1, "OpsTxt", ["t"], TYPES["txt"]["init"]), (1, 2, "OpsTreeText", ["tr"], []), (2, 1, "OpsTreeElem", ["tr"], [])]:
        name = "snap-%s" % alpha
        behs = gen_sim(ctx, name, n, alphabet=alpha, clients="Seq3", threshold=th, interval=iv, late='{"c3"}',
                       feat='{"idle", "build", "evict", "lateattach"}', weight=8, maxedits=3, kinds=kinds, init=init)
        viols += run_family(ctx, name, behs, C02_TAGS)
    fresh, known = split_known(ctx, viols)
    if ctx.counters.get("snapshot_responses", 0) == 0:
        raise Infra("vacuous: no snapshot response was ever served")
    return "model_checking", fresh, known, mc_cov(ctx), ["memdb backend only"]


def sim_families(ctx, fams, tags, n):
    """fams: list of dicts of gen_sim keyword arguments (with 'name')."""
    viols = []
    for f in fams:
        f = dict(f)
        name = f.pop("name")
        flags = f.pop("server_flags", None)
        behs = gen_sim(ctx, name, f.pop("n", n), **f)
        viols += run_family(ctx, name, behs, tags, server_flags=flags)
    return viols


ARR = dict(kinds=["a"], init=TYPES["arr"]["init"])
OBJ = dict(kinds=["o"], init=TYPES["obj"]["init"])
TXT = dict(kinds=["t"], init=TYPES["txt"]["init"])
TREE = dict(kinds=["tr"], init=[])
E2 = '{"c1", "c2"}'

C04_TAGS = {"LogDense", "RowsOfRequester", "PushedExactlyOnce", "NoDuplicateRow", "PerSessionOrdered", "NoGapBelowCheckpoint",
            "CheckpointBound", "PulledMatchesLog", "PulledInOrder", "NoEcho", "DeliveredOnce", "ResponseCheckpointBound",
            "CheckpointMonotone", "HeadMatchesLog", "CheckpointAdopted", "RefDense", "LogReplayable"}


def check_C04(ctx):
    build_harness(ctx)
    quick = ctx.tier == "quick"
    n = 150 if quick else 2000
    fams = [
        dict(name="seq-3c", alphabet="OpsMix", clients="Seq3", weight=40),
        dict(name="seq-detach", alphabet="OpsArrNoMove", clients="Seq3", feat='{"idle", "detach", "reattach", "pushonly"}', maxsess=2, weight=6, **ARR),
        dict(name="seq-late4", alphabet="OpsCnt", clients="Seq4", editors='{"c1", "c2", "c3", "c4"}', late='{"c4"}',
             feat='{"idle", "lateattach", "pushonly", "detach"}', weight=2, kinds=["n"], init=[]),
        dict(name="seq-snap", alphabet="OpsTxt", clients="Seq3", threshold=2, interval=2, feat='{"idle", "pushonly"}', weight=6, **TXT),
    ]
    viols = sim_families(ctx, fams, C04_TAGS, n)
    ok, out, rec = model_check(ctx, "YorkieGen", "mc_proto.cfg")
    if not ok:
        ctx.notes.append("design-level model mc_proto.cfg reports an invariant violation (candidate; see replay on code)")
    # concurrent schedules: interleavings of the handler steps of overlapping requests (also of ONE client: a retry),
    # enumerated by TLC from YorkieFG.tla and forced on the real server through the gate scheduler
    viols += fg_part(ctx, 60 if quick else 1500, C04_TAGS | {"Converged", "RefEquiv", "SyncNeverFails"}, scens=("A", "B"))
    fresh, known = split_known(ctx, viols)
    return "model_checking", fresh, known, mc_cov(ctx), ["memdb backend only (its write transactions are serialised)"]


C06_TAGS = {"OwnEntry", "UniqueTicket", "AuthorMonotone", "Causal", "MinVVSound"}


def check_C06(ctx):
    build_harness(ctx)
    quick = ctx.tier == "quick"
    n = 150 if quick else 2000
    fams = [
        dict(name="clk-3c", alphabet="OpsMix", clients="Seq3", weight=40),
        dict(name="clk-gcoff", alphabet="OpsCnt", clients="Seq3", feat='{"idle", "gcoff", "lateattach", "detach", "reattach"}', late='{"c3"}',
             maxsess=2, weight=2, kinds=["n"], init=[]),
        dict(name="clk-snap", alphabet="OpsGC", clients="Seq3", threshold=2, interval=2, feat='{"idle", "lateattach", "detach"}', late='{"c3"}', weight=10),
        dict(name="clk-snap1", alphabet="OpsTxt", clients="Seq3", threshold=1, interval=1, feat='{"idle", "lateattach", "detach", "reattach"}', late='{"c2"}',
             maxsess=2, weight=6, **TXT),
        # snapshots stored while nobody is attached (no version-vector row: the stored lamport is all there is), served
        # from a cold cache to a late attacher that then edits: its clock must still be ahead of what the snapshot held
        dict(name="clk-alone", alphabet="OpsObj", clients="Seq2", editors=E2, threshold=1, interval=1,
             feat='{"idle", "lateattach", "detach", "reattach", "evict"}', late='{"c2"}', maxsess=2, weight=6, maxedits=4, **OBJ),
        dict(name="clk-alone-gcoff", alphabet="OpsCnt", clients="Seq2", editors=E2, threshold=1, interval=2,
             feat='{"idle", "gcoff", "lateattach", "detach", "reattach", "evict"}', late='{"c2"}', maxsess=2, weight=2, maxedits=4, kinds=["n"], init=[]),
    ]
    viols = sim_families(ctx, fams, C06_TAGS, n)
    ok, out, rec = model_check(ctx, "YorkieGen", "mc_proto.cfg")
    fresh, known = split_known(ctx, viols)
    return "model_checking", fresh, known, mc_cov(ctx), ["memdb backend only"]


C08_TAGS = {"UpdateAtomic", "CloneEqRoot", "EditNeverFails"}


def check_C08(ctx):
    build_harness(ctx)
    quick = ctx.tier == "quick"
    n = 120 if quick else 1500
    fams = [
        dict(name="upd-mix", alphabet="OpsMix", clients="Seq2", editors=E2, feat='{"idle", "fail"}', weight=40, maxedits=6),
        dict(name="upd-arr", alphabet="OpsArr", clients="Seq2", editors=E2, feat='{"idle", "fail"}', weight=10, maxedits=6, **ARR),
        dict(name="upd-txt", alphabet="OpsTxt", clients="Seq2", editors=E2, feat='{"idle", "fail"}', weight=8, maxedits=6, **TXT),
        dict(name="upd-tree", alphabet="OpsTreeText", clients="Seq2", editors=E2, feat='{"idle", "fail"}', weight=10, maxedits=6, **TREE),
        dict(name="upd-nest-snap", alphabet="OpsNest", clients="Seq2", editors=E2, feat='{"idle", "fail"}', weight=6, maxedits=6,
             threshold=2, interval=2, **OBJ),
    ]
    viols = sim_families(ctx, fams, C08_TAGS, n)
    # Set-by-index on an element that was moved before: what the known finding KF-ARRAY-SET-MOVED breaks is convergence
    # under GC, which C08 does not judge - the copy handed to the updater must still equal the document. One editor, guard off.
    lfams = [dict(name="upd-arr-setmoved", alphabet="OpsArr", clients="Seq2", editors='{"c1"}', feat='{"idle", "fail"}', weight=10, maxedits=8,
                  guards=["no:KF-ARRAY-SET-MOVED"], **ARR)]
    viols += sim_families(ctx, lfams, {"UpdateAtomic", "CloneEqRoot"}, n)
    fresh, known = split_known(ctx, viols)
    return "model_checking", fresh, known, mc_cov(ctx), ["memdb backend only"]


C12_TAGS = {"PresenceConverged", "NoPresenceRows", "NoPresenceInResponses", "NoPresenceInSnapshots", "Converged", "SyncNeverFails",
            "DeactivateNeverFails", "PresenceOnlyAttached"}


def check_C12(ctx):
    build_harness(ctx)
    quick = ctx.tier == "quick"
    n = 150 if quick else 2000
    fams = [
        dict(name="pres", alphabet="OpsPresMix", clients="Seq3", feat='{"idle", "detach", "reattach", "deactivate", "lateattach"}', late='{"c3"}',
             maxsess=2, weight=4, kinds=["n"], init=[]),
        dict(name="pres-snap", alphabet="OpsPresMix", clients="Seq3", feat='{"idle", "detach", "reattach", "lateattach"}', late='{"c3"}',
             maxsess=2, weight=4, threshold=2, interval=2, kinds=["n"], init=[]),
        dict(name="nopres", alphabet="OpsPresMix", clients="Seq3", feat='{"idle", "detach", "reattach", "nopres", "lateattach", "deactivate"}', late='{"c3"}',
             maxsess=2, weight=4, threshold=3, interval=2, kinds=["n"], init=[]),
    ]
    viols = sim_families(ctx, fams, C12_TAGS, n)
    fresh, known = split_known(ctx, viols)
    return "model_checking", fresh, known, mc_cov(ctx), ["memdb backend only"]


C10_TAGS = {"CompactionKeepsContent", "StaleAddsNoRows", "StaleRefused", "EpochStrictlyIncreases", "CompactRefusedWhileAttached",
            "CompactNeverFailsOnContent", "CompactedLogSize", "FailedCompactKeepsEpoch", "Converged", "RefEquiv", "SyncNeverFails",
            "LogReplayable", "DetachTakesEffect"}


def check_C10(ctx):
    build_harness(ctx)
    quick = ctx.tier == "quick"
    n = 150 if quick else 2000
    feat = '{"idle", "detach", "reattach", "compact", "force", "lateattach"}'
    fams = [
        dict(name="cmp-mix", alphabet="OpsMix", clients="Seq3", feat=feat, late='{"c3"}', maxsess=3, maxcompact=2, weight=40, maxedits=3),
        dict(name="cmp-gc", alphabet="OpsGC", clients="Seq3", feat=feat, late='{"c3"}', maxsess=3, maxcompact=2, weight=10, maxedits=3),
        dict(name="cmp-nest", alphabet="OpsNest", clients="Seq2", editors=E2, feat=feat, maxsess=3, maxcompact=2, weight=6, maxedits=3, **OBJ),
        dict(name="cmp-snap", alphabet="OpsTxt", clients="Seq3", feat=feat, late='{"c3"}', maxsess=3, maxcompact=2, weight=6, maxedits=3,
             threshold=2, interval=2, **TXT),
        # a stale client that first syncs push-only (answered without the epoch check) and then normally
        dict(name="cmp-pushonly", alphabet="OpsCnt", clients="Seq3", feat='{"idle", "compact", "force", "lateattach", "pushonly"}', late='{"c3"}',
             maxcompact=2, weight=2, maxedits=4, maxsyncs=8, kinds=["n"], init=[]),
        dict(name="cmp-pushonly-obj", alphabet="OpsObj", clients="Seq2", editors=E2, feat='{"idle", "compact", "force", "pushonly"}',
             maxcompact=2, weight=4, maxedits=4, maxsyncs=8, **OBJ),
    ]
    if quick:   # validated on quick explorations 1-4; the thorough tier keeps its validated family set (C20 thorough runs the same families)
        fams += [
        # a fresh attacher served by a SNAPSHOT of the new generation (threshold 2): the server's cached document of the
        # old generation must not leak into it (seed C10-c; same parameters as C20's cache-compact families)
        dict(name="cmp-snapgen", alphabet="OpsCnt", clients="Seq3", threshold=2, interval=2, late='{"c3"}',
             feat='{"idle", "build", "compact", "force", "lateattach", "detach", "reattach"}', maxsess=3, maxcompact=2, weight=2, maxedits=5, maxsyncs=10,
             kinds=["n"], init=[]),
        dict(name="cmp-snapgen-obj", alphabet="OpsObj", clients="Seq3", threshold=2, interval=2, late='{"c3"}',
             feat='{"idle", "build", "compact", "force", "lateattach", "detach", "reattach"}', maxsess=3, maxcompact=2, weight=4, maxedits=5, maxsyncs=10, **OBJ),
        ]
    viols = sim_families(ctx, fams, C10_TAGS, n)
    if ctx.counters.get("compactions_ok", 0) == 0:
        raise Infra("vacuous: no compaction succeeded")
    fresh, known = split_known(ctx, viols)
    return "model_checking", fresh, known, mc_cov(ctx), ["memdb backend only"]


C11_TAGS = {"WriteOnlyWhenActive", "WriteOnlyWhenAttached", "RemovedStoresNothing", "RemovedIsSticky", "DetachTakesEffect",
            "RemoveTakesEffect", "DeactivateDetachesAll", "DeactivateNeverFails", "MinVVNotHeldBack", "RowWritten", "SyncNeverFails"}


def life_part(ctx, quick):
    """C11 small-scope exhaustive half: every (state, call) pair of Lifecycle.tla (valid and invalid calls) through the raw protocol."""
    import subprocess
    behs = generate(ctx, "life_gen.cfg", module="Lifecycle", overrides={"MaxLen": "7" if quick else "14"}, workers=1, timeout=900)
    if len(behs) < 1000:
        raise Infra("Lifecycle.tla generated only %d behaviours" % len(behs))
    d = ctx.sub("life")
    inp = os.path.join(d, "beh.ndjson")
    with open(inp, "w") as f:
        for b in behs:
            f.write(json.dumps(b) + "\n")
    ps = []
    for i in range(NCPU):
        out = os.path.join(d, "trace-%d.ndjson" % i)
        ps.append((out, subprocess.Popen([ctx.yvh, "life", "-in", inp, "-out", out, "-shard", str(i), "-nshards", str(NCPU)],
                                         stdout=subprocess.PIPE, stderr=subprocess.PIPE, text=True)))
    traces = []
    for out, p in ps:
        so, se = p.communicate(timeout=3000)
        if p.returncode != 0:
            raise Infra("life driver failed: " + se[-2000:])
        traces.append(out)
    viols = []
    seen = set()
    for v in validate(ctx, traces, module="LifecycleTrace", cfg="life_trace.cfg"):
        # one report per (tag, call): name the call and the history that led to it
        calls, cur = [], None
        with open(v["trace"]) as f:
            for i, line in enumerate(f, 1):
                e = json.loads(line)
                if e["ev"] == "reset":
                    calls = []
                else:
                    calls.append({"op": e["op"], "c": e["c"], "d": e["d"]})
                if i == v["line"]:
                    cur = e
                    break
        sig = (v["tag"], cur["op"] if cur else "", json.dumps(calls[-3:]))
        if sig in seen:
            continue
        seen.add(sig)
        viols.append({"property": "C11", "tag": v["tag"], "family": "lifecycle", "behaviour": None, "calls": calls, "event": cur, "errors": [], "seed": ctx.seed})
    ctx.count("behaviours_executed", len(behs))
    ctx.count("traces_validated", len(behs))
    ctx.samples.append({"family": "lifecycle", "state_call_pairs": len(behs), "max_history": 7 if quick else 14,
                        "exhaustive_over_abstract_states": not quick})
    return viols


def check_C11(ctx):
    build_harness(ctx)
    quick = ctx.tier == "quick"
    n = 150 if quick else 2000
    feat = '{"idle", "detach", "reattach", "remove", "deactivate", "lateattach", "pushonly"}'
    fams = [
        dict(name="life-cnt", alphabet="OpsCnt", clients="Seq3", feat=feat, late='{"c3"}', maxsess=3, weight=2, kinds=["n"], init=[]),
        dict(name="life-gc", alphabet="OpsGC", clients="Seq3", feat=feat, late='{"c3"}', maxsess=3, weight=10),
        dict(name="life-nopres", alphabet="OpsCnt", clients="Seq3", feat='{"idle", "detach", "reattach", "remove", "deactivate", "lateattach", "nopres"}',
             late='{"c3"}', maxsess=3, weight=2, kinds=["n"], init=[]),
    ]
    viols = sim_families(ctx, fams, C11_TAGS, n)
    viols += life_part(ctx, quick)
    fresh, known = split_known(ctx, viols)
    return "model_checking", fresh, known, mc_cov(ctx), ["memdb backend only"]


C15_TAGS = {"Converged", "RefEquiv", "SyncNeverFails", "UndoRedoNeverFails", "UndoQueuesChange", "CloneEqRoot", "LogReplayable", "BuildEquiv"}


def check_C15(ctx):
    build_harness(ctx)
    quick = ctx.tier == "quick"
    n = 150 if quick else 2000
    fams = []
    for nm, alpha, extra in [("arr", "OpsArrNoMove", ARR), ("cnt", "OpsCnt", dict(kinds=["n"], init=[]))]:
        fams.append(dict(name="undo-" + nm, alphabet=alpha, clients="Seq2", editors=E2, feat='{"idle", "undo"}', maxundo=3, maxedits=3, weight=4, **extra))
    # one editor, a passive peer, many syncs (so the editor collects its own tombstones before it undoes): every undo/redo
    # must still reach the peer. Text/tree/object undo against CONCURRENT remote edits are listed findings and stay out.
    one = '{"c1"}'
    for nm, alpha, extra in [("txt", "OpsTxtNoStyle", TXT), ("treet", "OpsTreeTextNoStyle", TREE)]:
        fams.append(dict(name="undo1p-" + nm, alphabet=alpha, clients="Seq2", editors=one, feat='{"idle", "undo"}', maxundo=4, maxedits=3, maxsyncs=10,
                         weight=3, **extra))
    viols = sim_families(ctx, [f for f in fams if not f["name"].startswith("undo1p-")], C15_TAGS, n)
    # text and tree are compared as character/XML content, not as internal chunking (ConvergedN / RefEquivN)
    viols += sim_families(ctx, [f for f in fams if f["name"].startswith("undo1p-")],
                          {"ConvergedN", "RefEquivN", "SyncNeverFails", "UndoRedoNeverFails", "UndoQueuesChange", "CloneEqRoot", "LogReplayable"}, n)
    # small-scope exhaustive: every program of two edits with every well-nested undo/redo sequence of length <= 4 in and after it
    # on one client, then the quiescent syncs: whatever undo/redo did (also when it did nothing) must reach the peer
    total = 0
    for typ, alpha, extra, cap in [("arr", "OpsArrNoMove", ARR, 1200), ("cnt", "OpsCnt", dict(kinds=["n"], init=[]), 400), ("txt", "OpsTxtNoStyle", TXT, 1200)]:
        steps = generate(ctx, "gen_pairs.cfg", overrides={"Alphabet": alpha, "Editors": '{"c1"}', "MaxEdits": "2", "MaxSyncs": "0", "Feat": '{"undo"}',
                                                          "MaxUndo": "4", "InitEdits": str(1 + len(extra["init"]))})
        total += len(steps)
        steps = sample(ctx, steps, cap if quick else 4 * cap)
        behs = [wrap(st, "exh-prop-%s-%d" % (typ, i), nclients=2, kinds=extra["kinds"], init=extra["init"], family="exh-prop-" + typ) for i, st in enumerate(steps)]
        viols += run_family(ctx, "exh-prop-" + typ, behs, {"SyncNeverFails", "ConvergedN", "RefEquivN", "UndoRedoNeverFails", "UndoQueuesChange", "LogReplayable", "CloneEqRoot"})
    ctx.samples.append({"family": "exh-prop", "behaviours_enumerated_by_tlc": total})
    if ctx.counters.get("undos", 0) == 0:
        raise Infra("vacuous: no undo executed")
    fresh, known = split_known(ctx, viols)
    return "model_checking", fresh, known, mc_cov(ctx), ["memdb backend only"]


C07_TAGS = {"LocalSemantics", "ViewConsistent", "FailedKeepsView", "EditNeverFails"}


def check_C07(ctx):
    build_harness(ctx)
    quick = ctx.tier == "quick"
    n = 100 if quick else 1500
    fams = []
    for nm, alpha, extra, w in [("arr", "OpsArr", ARR, 10), ("txt", "OpsTxt", TXT, 8), ("obj", "OpsObj", OBJ, 6), ("nest", "OpsNest", OBJ, 6),
                                ("cnt", "OpsCntWrap", dict(kinds=["n"], init=[]), 3), ("treet", "OpsTreeText", TREE, 10), ("treee", "OpsTreeElem", TREE, 6)]:
        fams.append(dict(name="sem-" + nm, alphabet=alpha, clients="Seq2", editors=E2, feat='{"idle", "fail"}', weight=w, maxedits=8, maxsyncs=8, **extra))
        fams.append(dict(name="sem-snap-" + nm, alphabet=alpha, clients="Seq3", feat='{"idle", "lateattach", "detach", "reattach"}', late='{"c3"}',
                         maxsess=2, weight=w, maxedits=5, threshold=2, interval=2, **extra))
    viols = sim_families(ctx, fams, C07_TAGS, n)
    fresh, known = split_known(ctx, viols)
    return "model_checking", fresh, known, mc_cov(ctx), ["memdb backend only", "text/tree styles: only that they do not change the content view"]


C09_TAGS = {"WireTransparent", "SnapshotBytesTransparent", "LogReplayable", "RefEquiv", "BuildEquiv"}


def check_C09(ctx):
    build_harness(ctx)
    quick = ctx.tier == "quick"
    n = 100 if quick else 1500
    fams = []
    for nm, alpha, extra, w in [("arr", "OpsArr", ARR, 10), ("txt", "OpsTxt", TXT, 8), ("nest", "OpsNest", OBJ, 6),
                                ("cnt", "OpsCntWrap", dict(kinds=["n"], init=[]), 3), ("treet", "OpsTreeText", TREE, 10), ("treee", "OpsTreeElem", TREE, 6),
                                ("mix", "OpsMix2", {}, 40)]:
        fams.append(dict(name="enc-" + nm, alphabet=alpha, clients="Seq3", feat='{"idle", "lateattach", "build"}', late='{"c3"}',
                         weight=w, maxedits=4, threshold=2, interval=2, guards=["KF-ARRAYSET-GC-LEAK"], **extra))
    fams.append(dict(name="enc-dedup", alphabet="OpsDedup", clients="Seq3", feat='{"idle", "lateattach", "build"}', late='{"c3"}', weight=2, maxedits=4,
                     threshold=2, interval=2, kinds=["u"], init=[]))
    fams.append(dict(name="enc-undo-arr", alphabet="OpsArrNoMove", clients="Seq2", editors=E2, feat='{"idle", "undo"}', maxundo=3, maxedits=3, weight=4, **ARR))
    # reverse operations only undo/redo produces (text RemoveStyle, tree style restore, set-and-remove) through the same round trips
    viols = sim_families(ctx, fams, C09_TAGS, n)
    # (single editor: what undo does under concurrency is C15's subject; only the encodings are judged here)
    ufams = [dict(name="enc-undo-txt", alphabet="OpsTxt", clients="Seq2", editors='{"c1"}', feat='{"idle", "undo"}', maxundo=4, maxedits=3, weight=4, **TXT),
             dict(name="enc-undo-tree", alphabet="OpsTree", clients="Seq2", editors='{"c1"}', feat='{"idle", "undo"}', maxundo=4, maxedits=3, weight=4, **TREE)]
    viols += sim_families(ctx, ufams, {"WireTransparent", "SnapshotBytesTransparent", "LogReplayable"}, n)
    # a Set that carries a whole container with tombstoned members (undo of deleting a nested object). Wire only: undo of an
    # object Set leaves a stale garbage-registry entry on every change-fed replica (KF-UNDO-REUSED-IDENTITY-GC), which the
    # snapshot encoding rightly does not carry - the garbage counts differ for that reason, not because of the encoding
    nfams = [dict(name="enc-undo-nest", alphabet="OpsNest", clients="Seq2", editors='{"c1"}', feat='{"idle", "undo"}', maxundo=4, maxedits=5, weight=6, **OBJ)]
    viols += sim_families(ctx, nfams, {"WireTransparent", "LogReplayable"}, n)
    # small-scope exhaustive: every two-edit program with every undo/redo sequence <= 4 on text and tree text (the token set holds a
    # non-BMP character): the reverse operations (restore spans, re-tombstone spans) through the wire encoding and a real push
    for typ, alpha, extra, cap in [("txt", "OpsTxtNoStyle", TXT, 1000), ("treet", "OpsTreeTextNoStyle", TREE, 1000)]:
        steps = generate(ctx, "gen_pairs.cfg", overrides={"Alphabet": alpha, "Editors": '{"c1"}', "MaxEdits": "2", "MaxSyncs": "0", "Feat": '{"undo"}',
                                                          "MaxUndo": "4", "InitEdits": str(1 + len(extra["init"]))})
        steps = sample(ctx, steps, cap if quick else 4 * cap)
        behs = [wrap(st, "exh-enc-%s-%d" % (typ, i), nclients=2, kinds=extra["kinds"], init=extra["init"], family="exh-enc-" + typ) for i, st in enumerate(steps)]
        viols += run_family(ctx, "exh-enc-" + typ, behs, {"WireTransparent", "LogReplayable", "SyncNeverFails"})
    # merges, splits, split tickets, merged-from: the tree catalogue's changes and documents through the same round trips
    tv, _ = tree_catalogue(ctx, 4 if quick else 1, {"WireTransparent", "SnapshotBytesTransparent", "LogReplayable"})
    viols += tv
    fresh, known = split_known(ctx, viols)
    return "translation_validation", fresh, known, dict(mc_cov(ctx), programs=ctx.counters.get("traces_validated", 0),
            disagreements_checked=ctx.counters.get("trace_events_validated", 0)), [
        "losslessness half only: every change and document reachable through the generated histories; hostile-bytes robustness is not decided by this technique (DESIGN.md section 8)"]


C18_TAGS = {"YsonRoundTrip", "CompactNeverFailsOnContent", "CompactionKeepsContent"}


def check_C18(ctx):
    build_harness(ctx)
    quick = ctx.tier == "quick"
    n = 100 if quick else 1500
    feat = '{"idle", "detach", "reattach", "compact", "force", "lateattach"}'
    fams = []
    for nm, alpha, extra, w in [("arr", "OpsArr", ARR, 10), ("txt", "OpsTxt", TXT, 8), ("nest", "OpsNest", OBJ, 6),
                                ("cnt", "OpsCntWrap", dict(kinds=["n"], init=[]), 3), ("treet", "OpsTreeText", TREE, 10), ("treee", "OpsTreeElem", TREE, 6),
                                ("mix", "OpsMix2", {}, 40)]:
        fams.append(dict(name="yson-" + nm, alphabet=alpha, clients="Seq3", feat=feat, late='{"c3"}', maxsess=3, maxcompact=2,
                         weight=w, maxedits=3, **extra))
    fams.append(dict(name="yson-dedup", alphabet="OpsDedup", clients="Seq3", feat=feat, late='{"c3"}', maxsess=3, maxcompact=2, weight=2, maxedits=3,
                     kinds=["u"], init=[]))
    viols = sim_families(ctx, fams, C18_TAGS, n)
    if ctx.counters.get("compactions_ok", 0) == 0:
        raise Infra("vacuous: no compaction succeeded")
    # revisions: the content a restore writes is the content at revision creation, for every container type
    rfams = []
    for nm, alpha, extra, w in [("arr", "OpsArr", ARR, 10), ("txt", "OpsTxt", TXT, 8), ("nest", "OpsNest", OBJ, 6),
                                ("cnt", "OpsCntWrap", dict(kinds=["n"], init=[]), 3), ("treet", "OpsTreeText", TREE, 10), ("treee", "OpsTreeElem", TREE, 6),
                                ("mix", "OpsMix2", {}, 40)]:
        rfams.append(dict(name="rev-" + nm, alphabet=alpha, clients="Seq2", editors=E2, feat='{"idle", "revision"}', weight=w, maxedits=4, maxsyncs=6, **extra))
    viols += sim_families(ctx, rfams, {"RestoreReturnsContent", "RevisionNeverFails", "RestoreNeverFails", "SyncNeverFails", "LogReplayable"}, n)
    if ctx.counters.get("restores_ok", 0) == 0:
        raise Infra("vacuous: no revision was restored")
    # the literal half: every value of the grammar Yson.tla (strings and keys that look like syntax included)
    import subprocess
    vals = generate(ctx, "yson_gen.cfg", module="Yson", workers=1)
    if len(vals) < 100:
        raise Infra("Yson.tla generated only %d values" % len(vals))
    d = ctx.sub("yson")
    inp = os.path.join(d, "values.ndjson")
    with open(inp, "w") as f:
        for b in vals:
            f.write(json.dumps(b) + "\n")
    tr = os.path.join(d, "trace.ndjson")
    p = subprocess.run([ctx.yvh, "yson", "-in", inp, "-out", tr], capture_output=True, text=True)
    if p.returncode != 0:
        raise Infra("yson driver failed: " + p.stderr[-2000:])
    lines = open(tr).read().splitlines()
    seen = set()
    for v in validate(ctx, [tr], module="YsonTrace", cfg="yson_trace.cfg"):
        e = json.loads(lines[v["line"] - 1])
        viols.append({"property": "C18", "tag": v["tag"], "family": "yson-literals", "behaviour": None, "value": e["inp"], "text": e["text"], "errors": [e["err"]],
                      "seed": ctx.seed})
    ctx.count("behaviours_executed", len(vals))
    ctx.count("traces_validated", len(vals))
    ctx.samples.append({"family": "yson-literals", "values": len(vals)})
    fresh, known = split_known(ctx, viols)
    return "translation_validation", fresh, known, dict(mc_cov(ctx), programs=ctx.counters.get("traces_validated", 0),
            disagreements_checked=ctx.counters.get("trace_events_validated", 0)), [
        "reachable-state half only: YSON round trip of every log prefix of the generated histories and packs.Compact's rebuild-compare; "
        "the literal half covers the grammar Yson.tla (476 root values: every primitive kind except double/bytes/date, strings and keys that look like syntax, "
        "styled text, trees with attributes, counters, containers of depth 1), not arbitrary YSON; revision restore itself is not driven (DESIGN.md section 8)"]


C14_TAGS = {"UndoExact", "RedoExact", "UndoRedoNeverFails", "CloneEqRoot", "SyncNeverFails", "Converged", "RefEquiv"}


def check_C14(ctx):
    build_harness(ctx)
    quick = ctx.tier == "quick"
    n = 120 if quick else 2000
    fams = []
    one = '{"c1"}'
    for nm, alpha, extra, w in [("arr", "OpsArrNoMove", ARR, 3), ("obj", "OpsObj", OBJ, 3), ("nest", "OpsNest", OBJ, 3),
                                ("cnt", "OpsCntWrap", dict(kinds=["n"], init=[]), 2)]:
        # single editor, the peer never edits: no concurrent remote changes
        fams.append(dict(name="undo1-" + nm, alphabet=alpha, clients="Seq2", editors=one, feat='{"idle", "undo"}', maxundo=6, maxedits=4, weight=w, **extra))
    softfams = []
    for nm, alpha, extra, w in [("txt", "OpsTxtNoStyle", TXT, 4), ("treet", "OpsTreeTextNoStyle", TREE, 4), ("treee", "OpsTreeElemNoStyle", TREE, 3)]:
        # exactness without GC (KF-UNDO-TEXT-AFTER-GC): no sync after set-up
        fams.append(dict(name="undo1-" + nm, alphabet=alpha, clients="Seq2", editors=one, feat='{"undo"}', maxundo=6, maxedits=5, maxsyncs=0, weight=1, **extra))
        softfams.append(dict(name="undo1s-" + nm, alphabet=alpha, clients="Seq2", editors=one, feat='{"idle", "undo"}', maxundo=6, maxedits=4, weight=w, **extra))
    # approximate kinds: never fail, never corrupt
    approx = [dict(name="undo1-approx", alphabet="OpsApprox", clients="Seq2", editors=one, feat='{"idle", "undo"}', maxundo=6, maxedits=4, weight=4)]
    objfams = [f for f in fams if f["name"] in ("undo1-obj", "undo1-nest")]
    fams = [f for f in fams if f not in objfams]
    viols = sim_families(ctx, fams, C14_TAGS, n)
    # object undo: exactness on the undoing replica only; what peers do with the
    # re-used identity is known finding KF-UNDO-REUSED-IDENTITY-GC
    viols += sim_families(ctx, objfams, {"UndoExact", "RedoExact", "UndoRedoNeverFails", "CloneEqRoot"}, n)
    viols += sim_families(ctx, softfams, {"UndoRedoNeverFails", "CloneEqRoot", "SyncNeverFails", "LogReplayable"}, n)
    # approximate kinds (styles, moves, set-by-index): never fail, never corrupt, still sync and converge - no exactness
    viols += sim_families(ctx, approx, {"UndoRedoNeverFails", "CloneEqRoot", "SyncNeverFails", "LogReplayable", "Converged", "RefEquiv"}, n)
    # small-scope exhaustive: every program of two edits with every well-nested undo/redo sequence of length <= 4 in and
    # after it (no sync: one replica), per exact container type - the depth-two redo cases random histories rarely hit
    total = 0
    for typ, alpha, extra, cap in [("arr", "OpsArrNoMove", ARR, 1200), ("cnt", "OpsCntWrap", dict(kinds=["n"], init=[]), 400),
                                   ("obj", "OpsObj", OBJ, 1200), ("txt", "OpsTxtNoStyle", TXT, 1200)]:
        steps = generate(ctx, "gen_pairs.cfg", overrides={"Alphabet": alpha, "Editors": '{"c1"}', "MaxEdits": "2", "MaxSyncs": "0", "Feat": '{"undo"}',
                                                          "MaxUndo": "4", "InitEdits": str(1 + len(extra["init"]))})
        total += len(steps)
        steps = sample(ctx, steps, cap if quick else 4 * cap)
        behs = [wrap(st, "exh-undo-%s-%d" % (typ, i), nclients=2, kinds=extra["kinds"], init=extra["init"], family="exh-undo-" + typ) for i, st in enumerate(steps)]
        viols += run_family(ctx, "exh-undo-" + typ, behs, {"UndoExact", "RedoExact", "UndoRedoNeverFails", "CloneEqRoot"})
    ctx.samples.append({"family": "exh-undo", "behaviours_enumerated_by_tlc": total})
    if ctx.counters.get("undos", 0) == 0:
        raise Infra("vacuous: no undo executed")
    fresh, known = split_known(ctx, viols)
    return "model_checking", fresh, known, mc_cov(ctx), ["single editor, no concurrent remote operation (the property's own premise)"]


# ---- gate-forced schedules (mechanism S): behaviours of YorkieFG.tla ----------
# scenario definitions mirror spec/YorkieFGScen.tla
FG_SCEN = {
    "A": {"reqs": {"r1": {"c": "c1", "kind": "sync"}, "r2": {"c": "c1", "kind": "sync"}, "r3": {"c": "c2", "kind": "sync"}}, "nlocal": {"c1": 1, "c2": 1}},
    "B": {"reqs": {"r1": {"c": "c1", "kind": "sync"}, "r2": {"c": "c1", "kind": "sync"}, "r3": {"c": "c2", "kind": "sync"}, "r4": {"c": "c2", "kind": "sync"}},
          "nlocal": {"c1": 1, "c2": 1}},
    "C": {"reqs": {"r1": {"c": "c1", "kind": "sync"}, "r2": {"c": "c1", "kind": "cdetach"}, "r3": {"c": "-", "kind": "compact"}}, "nlocal": {"c1": 1, "c2": 1}},
    "D": {"reqs": {"r1": {"c": "c1", "kind": "sync"}, "r2": {"c": "c2", "kind": "detach"}, "r3": {"c": "-", "kind": "compact"}}, "nlocal": {"c1": 1, "c2": 1}},
}
FG_CONTENT = [
    # (kinds, init, op of c1, op of c2): what the unsent local changes are
    (["n"], [], O("cnt.inc", v=1), O("cnt.inc", v=2)),
    (["a"], TYPES["arr"]["init"], O("arr.ins", 0, 0, 2), O("arr.add", v=1)),
    (["t"], TYPES["txt"]["init"], O("txt.edit", 1, 0, 2), O("txt.edit", 3, 1, 0)),
    (["o"], TYPES["obj"]["init"], O("obj.set", 0, 0, 1), O("obj.set", 0, 0, 2)),
]


def fg_scenarios(ctx, scen, n, family):
    scheds = generate(ctx, "fg_gen_%s.cfg" % scen, module="YorkieFGScen", simulate="num=%d" % n, workers=1, timeout=600)
    out = []
    for i, sch in enumerate(scheds):
        kinds, init, op1, op2 = FG_CONTENT[i % len(FG_CONTENT)]
        pre = []
        nl = FG_SCEN[scen]["nlocal"]
        for _ in range(nl.get("c1", 0)):
            pre.append({"a": "edit", "c": "c1", "d": "d1", "op": op1})
        for _ in range(nl.get("c2", 0)):
            pre.append({"a": "edit", "c": "c2", "d": "d1", "op": op2})
        b = wrap([], "%s-%s-%d" % (family, scen, i), nclients=2, kinds=kinds, init=init, family=family)
        b.update({"pre": pre, "reqs": FG_SCEN[scen]["reqs"], "schedule": sch, "phaseops": {}})
        out.append(b)
    return out


FG_TAGS = {"Completion", "LockOrder", "CreateUnderPushLock"}


def fg_part(ctx, n, tags, scens=("A", "B", "C", "D")):
    viols = []
    for scen in scens:
        ok, out, rec = model_check(ctx, "YorkieFGScen", "fg_%s.cfg" % scen)
        if not ok:
            ctx.notes.append("design-level model fg_%s.cfg violates an invariant (candidate only)" % scen)
        behs = fg_scenarios(ctx, scen, n, "fg")
        viols += run_family(ctx, "fg-" + scen, behs, tags, subcmd="gates")
    return viols


def check_C16(ctx):
    build_harness(ctx)
    quick = ctx.tier == "quick"
    viols = fg_part(ctx, 60 if quick else 1500, FG_TAGS | C04_TAGS | {"Converged", "RefEquiv", "SyncNeverFails", "LogReplayable"})
    viols += stress_part(ctx, procs=6 if quick else 16, runs=6 if quick else 60)
    fresh, known = split_known(ctx, viols)
    return "model_checking", fresh, known, mc_cov(ctx), [
        "free-running half: N clients x M documents with bursts of late (snapshot-fed) attachers and background compaction attempts run truly in parallel under the "
        "race detector with random yields at every lock boundary; StressTrace.tla decides Completion, LockOrder (per goroutine), LogDense, NoDuplicateRow, "
        "PerActorDense, Converged, RefEquiv, BuildEquiv on the recorded trace; a DATA RACE report is a violation. The workload only inserts (counters, object sets, "
        "array appends, text appends): deletions under concurrency run into the listed GC-order findings",
        "deadlock freedom, lock order and push-lock discipline: exhaustive on YorkieFG.tla for the listed scenarios (3-4 concurrent requests), "
        "TLC-generated schedules forced on the real server through the gate scheduler and validated; "
        "data-race freedom is not decided by the specification (DESIGN.md section 8)"]


def harness_only_races(stderr):
    """Returns the text of the first race report in which BOTH conflicting accesses are made by harness code
    (top frame in package main or verif/harness), else ''. Such a report says nothing about yorkie."""
    import re as _re
    for rep in stderr.split("=================="):
        if "DATA RACE" not in rep:
            continue
        tops = []
        lines = rep.splitlines()
        for i, ln in enumerate(lines):
            if _re.match(r"^(Write|Read|Previous write|Previous read|Atomic write|Atomic read|Previous atomic \w+) at ", ln.strip()) and i + 1 < len(lines):
                tops.append(lines[i + 1].strip())
        if tops and all(t.startswith("main.") or "verif/harness" in t for t in tops):
            return rep
    return ""


def stress_part(ctx, procs, runs):
    """C16 free-running half: `yvh stress` (race build) in several processes; traces validated by StressTrace.tla."""
    import subprocess
    yr = build_harness(ctx, race=True)
    d = ctx.sub("stress")
    ps = []
    for i in range(procs):
        out = os.path.join(d, "stress-%d.ndjson" % i)
        cmd = [yr, "stress", "-out", out, "-runs", str(runs), "-seed", str(ctx.seed * 1000 + i), "-clients", str(3 + i % 3), "-late", str(6 + 3 * (i % 2)),
               "-docs", str(1 + i % 2), "-ops", str(20 + 10 * (i % 3))]
        if i % 2 == 1:
            cmd += ["-attachlimit", "100"]   # the per-document attachment lock is only taken when the project limits attachments
        ps.append((out, subprocess.Popen(cmd, stdout=subprocess.PIPE, stderr=subprocess.PIPE, text=True)))
    viols, traces = [], []
    for out, p in ps:
        try:
            so, se = p.communicate(timeout=3000)
        except subprocess.TimeoutExpired:
            p.kill()
            raise Infra("stress driver timed out")
        if "DATA RACE" in se:
            mine = harness_only_races(se)
            if mine:
                raise Infra("data race inside the harness itself (not a verdict about yorkie):\n" + mine[:3000])
            viols.append({"property": "C16", "tag": "RaceDetected", "family": "stress", "behaviour": None, "errors": [se[:4000]], "seed": ctx.seed})
        elif "fatal error: concurrent map" in se:
            viols.append({"property": "C16", "tag": "ConcurrentMapAccess", "family": "stress", "behaviour": None, "errors": [se[:4000]], "seed": ctx.seed})
        elif p.returncode != 0:
            raise Infra("stress driver failed: " + se[-3000:])
        if os.path.exists(out) and os.path.getsize(out) > 0 and p.returncode == 0:
            traces.append(out)
        ctx.count("behaviours_executed", runs)
    for v in validate(ctx, traces, module="StressTrace", cfg="stress_trace.cfg"):
        viols.append({"property": "C16", "tag": v["tag"], "family": "stress", "behaviour": None, "run": v.get("run"), "trace_line": v["line"],
                      "trace_file": os.path.basename(v["trace"]), "errors": [], "seed": ctx.seed})
    ctx.count("traces_validated", procs * runs)
    nlock = ncall = nested = 0
    for t in traces[:2]:
        held = {}
        for line in open(t):
            e = json.loads(line)
            if e["ev"] == "call":
                ncall += 1
            if e["ev"] == "lock":
                nlock += 1
                g = e["gid"]
                if e["op"] == "wait" and held.get(g):
                    nested += 1
                if e["op"] == "acquired":
                    held[g] = held.get(g, 0) + 1
                if e["op"] == "released":
                    held[g] = held.get(g, 0) - 1
    if nested == 0 and not viols:
        raise Infra("vacuous: no nested lock acquisition observed in the stress traces")
    ctx.samples.append({"family": "stress", "processes": procs, "runs_per_process": runs, "calls_in_first_two_traces": ncall,
                        "lock_events_in_first_two_traces": nlock, "nested_lock_waits_in_first_two_traces": nested})
    return viols


C05_TAGS = {"NoDuplicateRow", "PushedExactlyOnce", "PerSessionOrdered", "NoGapBelowCheckpoint", "DeliveredOnce", "SyncNeverFails",
            "Converged", "RefEquiv", "LogReplayable", "LogDense", "CheckpointBound", "PulledMatchesLog"}


def check_C05(ctx):
    build_harness(ctx)
    quick = ctx.tier == "quick"
    n = 200 if quick else 3000
    fams = [
        dict(name="fault-cnt", alphabet="OpsCnt", clients="Seq2", editors=E2, feat='{"idle", "fault"}', maxfaults=2, weight=2, maxedits=3, kinds=["n"], init=[]),
        dict(name="fault-cnt3", alphabet="OpsCnt", clients="Seq3", feat='{"idle", "fault", "detach", "reattach"}', maxfaults=3, maxsess=2, weight=2, maxedits=3,
             kinds=["n"], init=[]),
        dict(name="fault-arr", alphabet="OpsArrNoMove", clients="Seq2", editors=E2, feat='{"idle", "fault"}', maxfaults=2, weight=4, maxedits=3, **ARR),
        dict(name="fault-txt-snap", alphabet="OpsTxt", clients="Seq2", editors=E2, feat='{"idle", "fault"}', maxfaults=2, weight=6, maxedits=3,
             threshold=2, interval=2, **TXT),
    ]
    viols = sim_families(ctx, fams, C05_TAGS, n)
    fired = 0
    fresh, known = split_known(ctx, viols)
    if ctx.counters.get("faults_fired", 0) == 0:
        raise Infra("vacuous: no fault fired")
    return "fault_enumeration", fresh, known, dict(mc_cov(ctx), evaluations=ctx.counters.get("behaviours_executed", 0),
            distinct_nontrivial=ctx.counters.get("faults_fired", 0),
            rule="behaviours generated by TLC from Yorkie.tla (FaultySync at the explored fault points, then resend of the identical pack); "
                 "distinct_nontrivial counts faults that actually fired in executed behaviours"), [
        "explored fault points: error before CreateChangeInfos took effect; error after UpdateClientInfoAfterPushPull took effect (= lost response). "
        "The points in between are known finding KF-RETRY-DUPLICATES (reproducer re-run on every check)"]


def check_C20(ctx):
    import subprocess, shutil
    from core import BEH_RE, tla_unescape, run_tlc, STATS_RE, SPEC, _tlc_env
    build_harness(ctx)
    quick = ctx.tier == "quick"
    # 1. the range cache: exhaustive check of the specification, then TLC-generated call sequences on the real
    #    mongo.ChangeStore, every call validated against the specification (fetcher calls and results)
    ok, out, rec = model_check(ctx, "ChangeStore", "cstore_mc.cfg", overrides=None if quick else {"N": "6"})
    viols = []
    if not ok:
        raise Infra("ChangeStore.tla itself violates its invariants:\n" + out[-2000:])
    behs = generate(ctx, "cstore_gen.cfg", module="ChangeStore", simulate="num=%d" % (600 if quick else 20000), workers=1, timeout=900)
    d = ctx.sub("cstore")
    inp = os.path.join(d, "beh.ndjson")
    with open(inp, "w") as f:
        for b in behs:
            f.write(json.dumps(b) + "\n")
    tr = os.path.join(d, "trace.ndjson")
    p = subprocess.run([ctx.yvh, "cstore", "-in", inp, "-out", tr], capture_output=True, text=True)
    if p.returncode != 0:
        raise Infra("cstore driver failed: " + p.stderr[-2000:])
    for v in validate(ctx, [tr], module="ChangeStoreTrace", cfg="cstore_trace.cfg"):
        run = v.get("run")
        viols.append({"property": "C20", "tag": v["tag"], "family": "changestore", "behaviour": behs[run - 1] if run and run <= len(behs) else None,
                      "line": v["line"], "seed": ctx.seed, "errors": []})
    ctx.count("traces_validated", len(behs))
    ctx.samples.append({"family": "changestore", "steps": behs[0] if behs else []})
    # 1b. pkg/cache (sharded LRU, expirable LRU): Cache.tla checked exhaustively; generated call sequences on both real caches
    ok, out, rec = model_check(ctx, "Cache", "cache_mc.cfg", overrides={"MaxLen": "4"} if quick else None)
    if not ok:
        raise Infra("Cache.tla itself violates its invariants:\n" + out[-2000:])
    cbehs = generate(ctx, "cache_gen.cfg", module="Cache", simulate="num=%d" % (300 if quick else 5000), workers=1, timeout=900)
    cinp = os.path.join(d, "lru-beh.ndjson")
    with open(cinp, "w") as f:
        for b in cbehs:
            f.write(json.dumps(b) + "\n")
    lprocs = []
    for i in range(NCPU):
        lo = os.path.join(d, "lru-trace-%d.ndjson" % i)
        lprocs.append((lo, subprocess.Popen([ctx.yvh, "lru", "-in", cinp, "-out", lo, "-shard", str(i), "-nshards", str(NCPU)], stdout=subprocess.PIPE, stderr=subprocess.PIPE, text=True)))
    ltraces = []
    for lo, p in lprocs:
        so, se = p.communicate(timeout=3000)
        if p.returncode != 0:
            raise Infra("lru driver failed: " + se[-2000:])
        if os.path.getsize(lo) > 0:
            ltraces.append(lo)
    for v in validate(ctx, ltraces, module="CacheTrace", cfg="cache_trace.cfg"):
        viols.append({"property": "C20", "tag": v["tag"], "family": "lru", "behaviour": None, "run": v.get("run"), "line": v["line"], "seed": ctx.seed, "errors": []})
    ctx.count("traces_validated", 2 * len(cbehs))
    ctx.count("behaviours_executed", 2 * len(cbehs))
    ctx.samples.append({"family": "lru", "behaviours": len(cbehs), "caches": ["sharded LRU size 16", "expirable LRU size 3 ttl 100ms"]})
    # 2. the snapshot cache: the server's rebuilt document with cache hits / misses / evictions interleaved with pushes
    fams = [dict(name="cache-mix", alphabet="OpsMix", clients="Seq3", threshold=2, interval=2, late='{"c3"}',
                 feat='{"idle", "build", "evict", "lateattach"}', weight=40, maxedits=3),
            dict(name="cache-nest", alphabet="OpsNest", clients="Seq3", threshold=1, interval=3, late='{"c3"}',
                 feat='{"idle", "build", "evict", "lateattach"}', weight=6, maxedits=3, **OBJ)]
    # ... and across a compaction: the cache entry of the old generation must not survive the rewrite of the log
    fams.append(dict(name="cache-compact", alphabet="OpsCnt", clients="Seq3", threshold=2, interval=2, late='{"c3"}',
                     feat='{"idle", "build", "compact", "force", "lateattach", "detach", "reattach"}', maxsess=3, maxcompact=2, weight=2, maxedits=5, maxsyncs=10,
                     kinds=["n"], init=[]))
    fams.append(dict(name="cache-compact-obj", alphabet="OpsObj", clients="Seq3", threshold=2, interval=2, late='{"c3"}',
                     feat='{"idle", "build", "compact", "force", "lateattach", "detach", "reattach"}', maxsess=3, maxcompact=2, weight=4, maxedits=5, maxsyncs=10, **OBJ))
    viols += sim_families(ctx, fams, {"BuildEquiv", "BuildNeverFails", "RefEquiv", "SyncNeverFails"}, 120 if quick else 1500)
    if ctx.counters.get("builds", 0) == 0:
        raise Infra("vacuous: no rebuild observed")
    fresh, known = split_known(ctx, viols)
    return "model_checking", fresh, known, mc_cov(ctx), [
        "the MongoDB client that composes the caches cannot run here: the composition rules of mongo/client.go are modelled in ChangeStore.tla and "
        "replayed against the real mongo.ChangeStore; pkg/cache (sharded LRU, expirable LRU) is covered as a look-aside contract (Cache.tla: a hit returns the last value added, "
        "removed/purged/expired keys miss, the key added last hits), not as an exact LRU order"]


C19_TAGS = {"Converged", "CloneEqRoot", "RefEquiv", "BuildEquiv", "BuildNeverFails", "SyncNeverFails", "LogReplayable", "EditNeverFails"}


def check_C19(ctx):
    build_harness(ctx)
    quick = ctx.tier == "quick"
    viols, cells = tree_catalogue(ctx, 2 if quick else 1, C19_TAGS)
    fresh, known = split_known(ctx, viols)
    return "exploration", fresh, known, dict(mc_cov(ctx), evaluations=ctx.counters.get("behaviours_executed", 0),
            distinct_nontrivial=ctx.counters.get("behaviours_executed", 0), exhaustive=not quick,
            rule="upstream's five tree concurrency matrices (%d cells) x 2 sync orders x {passive third client, late snapshot-fed third client}; "
                 "every execution is distinct and concurrent by construction; quick runs every 2nd cell (offset by seed), thorough the whole catalogue" % cells), [
        "no explicit TLA+ model of the tree merge algorithm: decided through Converged / CloneEqRoot / RefEquiv evaluated by TLC on the traces"]


def tree_catalogue(ctx, every, tags):
    import subprocess
    d = ctx.sub("tree")
    n = NCPU
    procs = []
    for i in range(n):
        out = os.path.join(d, "trace-%d.ndjson" % i)
        cmd = [ctx.yvh, "tree", "-out", out, "-shard", str(i), "-nshards", str(n), "-every", str(every), "-offset", str(ctx.seed % every)]
        procs.append((out, subprocess.Popen(cmd, stdout=subprocess.PIPE, stderr=subprocess.PIPE, text=True)))
    traces = []
    cells = 0
    for out, p in procs:
        so, se = p.communicate(timeout=3000)
        if p.returncode != 0:
            raise Infra("tree driver failed: " + se[-3000:])
        traces.append(out)
        m = __import__("re").search(r"executed=(\d+).*cells=(\d+)", so)
        if m:
            ctx.count("behaviours_executed", int(m.group(1)))
            cells = int(m.group(2))
    viols = []
    raw = validate(ctx, traces)
    ctx.count("traces_validated", count_traces(traces))
    trace_stats(ctx, traces)
    seen = set()
    for v in sorted(raw, key=lambda v: (v["tid"], v["line"])):
        ctx.count("raw_violations_" + v["tag"])
        if v["tag"] not in tags or (v["tid"], v["tag"]) in seen:
            continue
        seen.add((v["tid"], v["tag"]))
        if v["tag"] == "SnapshotBytesTransparent" and __import__("re").match(r"^concurrently-split-edit-test/.*/split-\d/remove-style#", v["tid"]) \
                and any(f["id"] == "KF-SNAPSHOT-ATTR-TOMBSTONE" for f in F.open_findings(ctx.prop)):
            ctx.count("attributed_KF-SNAPSHOT-ATTR-TOMBSTONE")
            ctx.attributed["KF-SNAPSHOT-ATTR-TOMBSTONE"] = "snapshot bytes drop the removed-attribute tombstone of a split tree element (cells split-N x remove-style)"
            continue
        # the replay file names the cell: <matrix>/<range>/<op1>/<op2>#o<order>-<variant>
        viols.append({"property": "C19", "tag": v["tag"], "family": "tree-catalogue", "cell": v["tid"], "behaviour": None, "errors": [], "seed": ctx.seed})
    ctx.samples.append({"family": "tree-catalogue", "cells": cells, "example_cell": raw[0]["tid"] if raw else "concurrently-edit-edit-test/intersect-element/insertTextFront/insertTextFront#o0-passive"})
    return viols, cells


def check_C17(ctx):
    import subprocess
    quick = ctx.tier == "quick"
    # 1. the design: exhaustive safety (Delivered, NoLeak) and liveness (EventuallyDelivered under fairness) of PubSub.tla
    ok, out, rec = model_check(ctx, "PubSub", "pubsub_2x2.cfg")
    if not ok:
        raise Infra("PubSub.tla violates its own invariants")
    ok, out, rec = model_check(ctx, "PubSub", "pubsub_live.cfg")
    if not ok:
        raise Infra("PubSub.tla violates its liveness property")
    if not quick:
        model_check(ctx, "PubSub", "pubsub_2x2.cfg", overrides={"Stall": "TRUE"}, extra=None) if False else None
    # 2. the real pubsub.PubSub under true concurrency, race detector on; histories validated by PubSubTrace.tla
    yr = build_harness(ctx, race=True)
    d = ctx.sub("pubsub")
    procs = []
    nproc = 8 if quick else 16
    runs = 6 if quick else 60
    for i in range(nproc):
        out = os.path.join(d, "trace-%d.ndjson" % i)
        cmd = [yr, "pubsub", "-out", out, "-runs", str(runs), "-seed", str(ctx.seed * 1000 + i)]
        if i % 4 == 3:
            cmd.append("-stall")
        procs.append((out, subprocess.Popen(cmd, stdout=subprocess.PIPE, stderr=subprocess.PIPE, text=True)))
    # the lost wake-up between the last unsubscribe (which closes the key's batch publisher) and a new subscribe:
    # on 48 keys per run a watcher subscribes while a churner keeps being the last watcher that leaves
    for i in range(2 if quick else 6):
        out = os.path.join(d, "trace-lw-%d.ndjson" % i)
        cmd = [yr, "pubsub", "-out", out, "-runs", str(8 if quick else 60), "-seed", str(ctx.seed * 1000 + 500 + i), "-lastwatcher", "48"]
        procs.append((out, subprocess.Popen(cmd, stdout=subprocess.PIPE, stderr=subprocess.PIPE, text=True)))
    traces = []
    viols = []
    for out, p in procs:
        so, se = p.communicate(timeout=3000)
        if "DATA RACE" in se:
            rp = os.path.join(d, os.path.basename(out) + ".race.txt")
            open(rp, "w").write(se)
            viols.append({"property": "C17", "tag": "RaceDetected", "family": "pubsub-stress", "behaviour": None, "errors": [se[:3000]], "seed": ctx.seed})
        elif p.returncode != 0:
            raise Infra("pubsub driver failed: " + se[-3000:])
        traces.append(out)
        ctx.count("behaviours_executed", runs)
    # end to end: WatchDocument streams of real clients in realtime-sync mode (they pull only when a change event arrives)
    wtraces = []
    wprocs = []
    for i in range(2 if quick else 6):
        out = os.path.join(d, "watch-%d.ndjson" % i)
        wprocs.append((out, subprocess.Popen([yr, "watch", "-out", out, "-runs", str(4 if quick else 30), "-seed", str(ctx.seed * 1000 + 700 + i)],
                                             stdout=subprocess.PIPE, stderr=subprocess.PIPE, text=True)))
    for out, p in wprocs:
        so, se = p.communicate(timeout=3000)
        if "DATA RACE" in se:
            mine = harness_only_races(se)
            if mine:
                raise Infra("data race inside the harness itself (not a verdict about yorkie):\n" + mine[:3000])
            viols.append({"property": "C17", "tag": "RaceDetected", "family": "watch-e2e", "behaviour": None, "errors": [se[:3000]], "seed": ctx.seed})
        elif p.returncode != 0:
            raise Infra("watch driver failed: " + se[-3000:])
        else:
            wtraces.append(out)
    for v in validate(ctx, wtraces, module="WatchTrace", cfg="watch_trace.cfg"):
        viols.append({"property": "C17", "tag": v["tag"], "family": "watch-e2e", "behaviour": None, "run": v.get("run"), "trace_line": v["line"],
                      "errors": [], "seed": ctx.seed})
    ctx.count("traces_validated", len(wtraces))
    ctx.samples.append({"family": "watch-e2e", "processes": len(wprocs), "watchers": 3, "pushes_per_run": 5, "bound_s": 5})
    for v in validate(ctx, traces, module="PubSubTrace", cfg="pubsub_trace.cfg"):
        viols.append({"property": "C17", "tag": v["tag"], "family": "pubsub-stress", "behaviour": None, "run": v.get("run"), "trace_line": v["line"],
                      "errors": [], "seed": ctx.seed})
    ctx.count("traces_validated", nproc * runs)
    ctx.samples.append({"family": "pubsub-stress", "subs": 4, "pubs": 3, "runs_per_process": runs, "processes": nproc, "stalled_consumer_every": 4})
    fresh, known = split_known(ctx, viols)
    return "model_checking", fresh, known, mc_cov(ctx), [
        "the fine-grained PubSub.tla is checked exhaustively (2 subscribers x 2 events x 2 generations; liveness for 1 event); the implementation is bound "
        "through histories of a free-running concurrent driver (call start/end under one sequence number), not through forced schedules; "
        "bounded time is nine flush windows (900 ms) for the package-level histories and 5 s end to end; the end-to-end part drives real clients in realtime-sync "
        "mode against the real server (WatchDocument stream, publish after PushPull) and never asks a watcher to sync"]


def access_cells(ctx):
    """The procedure list from the service descriptors (harness) and the matrix
    Access.tla derives from it (TLC; Isolation/DeniedIfForeign checked on the way)."""
    import subprocess, re as _re
    from core import run_tlc, tla_unescape
    d = ctx.sub("access")
    procs = os.path.join(d, "procs.ndjson")
    with open(procs, "w") as f:
        subprocess.run([ctx.yvh, "access", "-list"], stdout=f, check=True)
    plist = [json.loads(l) for l in open(procs)]
    rc, out, rec, td = run_tlc(ctx, "Access", "access_gen.cfg", workers=1, env_extra={"YPROCS": procs})
    import shutil
    shutil.rmtree(td, ignore_errors=True)
    if rc != 0:
        raise Infra("Access.tla failed rc=%s:\n%s" % (rc, out[-3000:]))
    cells = []
    for line in out.splitlines():
        m = _re.match(r'^<<"CELL", "(.*)">>$', line.strip())
        if m:
            cells.append(json.loads(tla_unescape(m.group(1))))
    if not cells:
        raise Infra("Access.tla generated no cells")
    return procs, plist, cells


def access_run(ctx, procs, cells, name, flags=None):
    import subprocess
    d = ctx.sub("access")
    inp = os.path.join(d, "cells-%s.ndjson" % name)
    with open(inp, "w") as f:
        for c in cells:
            f.write(json.dumps(c) + "\n")
    out = os.path.join(d, "trace-%s.ndjson" % name)
    p = subprocess.run([ctx.yvh, "access", "-in", inp, "-out", out] + (flags or []), stdout=subprocess.PIPE, stderr=subprocess.PIPE, text=True, timeout=3000)
    if p.returncode != 0:
        raise Infra("access driver failed: " + (p.stderr or p.stdout)[-3000:])
    ctx.count("behaviours_executed", len(cells))
    viols = []
    for v in validate(ctx, [out], module="AccessTrace", cfg="access_trace.cfg", env_extra={"YPROCS": procs}):
        ev = None
        if v.get("line"):
            with open(out) as f:
                for i, l in enumerate(f, 1):
                    if i == v["line"]:
                        ev = json.loads(l)
        viols.append({"property": "C13", "tag": v["tag"], "family": "access", "behaviour": None, "cell": v.get("cell"), "server_flags": flags or [],
                      "event": ev, "errors": [], "seed": ctx.seed})
    ctx.count("traces_validated", 1)
    return out, viols


def check_C13(ctx):
    import random
    build_harness(ctx)
    quick = ctx.tier == "quick"
    procs, plist, cells = access_cells(ctx)
    rnd = random.Random(ctx.seed)
    viols = []
    runs = [("default", [])] if quick else [("default", []), ("nodefault", ["-no-default-project"]), ("default2", []), ("nodefault2", ["-no-default-project"])]
    stats = {}
    for name, flags in runs:
        order = list(cells)
        rnd.shuffle(order)      # a call that damages the victim must not hide behind the order of the matrix
        out, vs = access_run(ctx, procs, order, name, flags)
        viols += vs
        rows = [json.loads(l) for l in open(out)]
        calls = [r for r in rows if r["ev"] == "Call"]
        served = {(r["svc"], r["proc"]) for r in calls if not r["foreign"] and r["code"] == "ok"}
        allp = {(r["svc"], r["proc"]) for r in calls}
        stats[name] = {"cells": len(calls), "foreign_cells": sum(1 for r in calls if r["foreign"]),
                       "procedures": len(allp), "procedures_with_a_served_control": len(served),
                       "procedures_without_served_control": sorted("%s/%s" % p for p in allp - served),
                       "foreign_cells_refused": sum(1 for r in calls if r["foreign"] and r["code"] != "ok"),
                       "codes": {c: sum(1 for r in calls if r["code"] == c) for c in sorted({r["code"] for r in calls})}}
    unknown = {"%s/%s" % (p["svc"], p["proc"]): p["unknown"] for p in plist if p["unknown"]}
    ctx.samples.append({"family": "access", "procedures_from_descriptors": len(plist), "stream_procedures": sum(1 for p in plist if p["stream"]),
                        "cells_in_matrix": len(cells), "unclassified_id_like_fields": unknown, "runs": stats})
    if unknown:
        ctx.notes.append("request fields that look like identifiers but have no slot role (not varied own/foreign): %s" % unknown)
    fresh, known = split_known(ctx, viols)
    return "model_checking", fresh, known, mc_cov(ctx), [
        "the matrix (procedure x credential x own/foreign assignment of every identifying request field) is generated by TLC from Access.tla over the procedure list "
        "the harness derives from the generated service descriptors; every cell is executed once per run against a real two-project memdb server and decided by AccessTrace.tla",
        "'leave the foreign project's stored state byte-identical' is decided on a reflective dump of every memdb row of the victim project (all 12 tables) plus its in-memory channel session counts",
        "'fail with not-found/unauthenticated/permission-denied' is decided as indistinguishability from the same call naming an identifier that exists nowhere (NoOracle) plus NoRead/NoWrite; "
        "procedures that ignore an unknown client id (DeactivateClient, CreateRevision, RefreshChannel) answer ok for both and are accepted",
        "request bodies are built generically from the descriptors; a procedure whose own-resources control call is not served (listed in coverage) is probed only as deep as its validation lets the request go",
        "MongoDB backend, auth webhook and the TTL of channel sessions are outside the run (memdb, no webhook, TTL 1h)"]


CHECKS = {"C13": check_C13, "C17": check_C17, "C19": check_C19, "C20": check_C20, "C05": check_C05, "C16": check_C16, "C07": check_C07, "C09": check_C09, "C14": check_C14, "C18": check_C18, "C01": check_C01, "C02": check_C02, "C03": check_C03, "C04": check_C04, "C06": check_C06, "C08": check_C08,
          "C10": check_C10, "C11": check_C11, "C12": check_C12, "C15": check_C15}


def replay(ctx, path):
    """Re-executes the behaviour of a replay file and validates it alone with
    NoViolation as a plain TLC INVARIANT (so TLC prints the counterexample)."""
    import subprocess, shutil, tempfile
    from core import SPEC, _tlc_env
    v = json.load(open(path))
    build_harness(ctx)
    if v.get("family") == "access":
        procs, plist, cells = access_cells(ctx)
        out, vs = access_run(ctx, procs, [v["cell"]], "replay", v.get("server_flags"))
        tags = sorted({x["tag"] for x in vs if x["tag"] != "Coverage"})
        print("replayed %s: violated rules now: %s (recorded: %s)" % (path, tags, v["tag"]))
        print(open(out).readline().strip()[:600])
        return 1 if v["tag"] in tags else 0
    if v.get("family") == "lifecycle" and v.get("calls"):
        import subprocess
        d = ctx.sub("life-replay")
        inp, out = os.path.join(d, "beh.ndjson"), os.path.join(d, "trace.ndjson")
        open(inp, "w").write(json.dumps(v["calls"]) + "\n")
        p = subprocess.run([ctx.yvh, "life", "-in", inp, "-out", out], capture_output=True, text=True)
        if p.returncode != 0:
            raise Infra("life driver failed: " + p.stderr[-2000:])
        tags = sorted({x["tag"] for x in validate(ctx, [out], module="LifecycleTrace", cfg="life_trace.cfg")})
        print("replayed %s: violated rules now: %s (recorded: %s)" % (path, tags, v["tag"]))
        print(open(out).read()[-1500:])
        return 1 if v["tag"] in tags else 0
    if v.get("family") == "yson-literals" and v.get("value") is not None:
        print("replay of a YSON literal: the value was %s\nexported text: %s\nerrors: %s\n(re-run `bin/check C18` to judge it again: the literals are enumerated, not sampled)"
              % (json.dumps(v["value"])[:500], v.get("text"), v.get("errors")))
        return 0
    if not v.get("behaviour"):
        # free-running parts (stress, pubsub histories, watch, lru, change store, tree catalogue cells): there is no
        # schedule to force again - the whole check is the replay
        print("no recorded behaviour for family %s: re-running the check" % v.get("family"))
        fn = CHECKS[v["property"]]
        level, viols, known, cov, assumptions = fn(ctx)
        tags = sorted({x["tag"] for x in viols})
        print("violated now: %s (recorded: %s)" % (tags, v["tag"]))
        return 1 if v["tag"] in tags else 0
    traces = execute(ctx, [v["behaviour"]], "replay", server_flags=v.get("server_flags"), shards=1)
    viols = validate(ctx, traces)
    tags = sorted({x["tag"] for x in viols})
    print("replayed %s: violated invariants now: %s (recorded: %s)" % (path, tags, v["tag"]))
    for x in viols[:10]:
        print("  ", x["tag"], "line", x["line"])
    return 1 if v["tag"] in tags else 0


def shrink(ctx, path, out=None):
    """Greedy step-removal shrinking of a replay file (keeps the same tag)."""
    v = json.load(open(path))
    build_harness(ctx)
    b = v["behaviour"]
    tag = v["tag"]
    steps = list(b["steps"])

    def still(cands):
        behs = []
        for i, st in enumerate(cands):
            nb = dict(b)
            nb["steps"] = st
            nb["id"] = "cand-%d" % i
            behs.append(nb)
        traces = execute(ctx, behs, "shrink", server_flags=v.get("server_flags"), shards=min(8, max(1, len(behs) // 4)))
        viols = validate(ctx, traces)
        bad = {x["tid"] for x in viols if x["tag"] == tag}
        return [i for i in range(len(cands)) if "cand-%d" % i in bad]

    if not still([steps]):
        print("not reproduced")
        return 2
    changed = True
    while changed:
        changed = False
        # try removing chunks, then single steps
        for size in (4, 2, 1):
            i = 0
            while i < len(steps):
                cands = []
                idxs = []
                j = i
                while j < len(steps) and len(cands) < 24:
                    if steps[j]["a"] not in ("attach", "setupsync") or size == 1 and steps[j]["a"] not in ("setupsync",) and j > 2:
                        cands.append(steps[:j] + steps[j + size:])
                        idxs.append(j)
                    j += 1
                if not cands:
                    break
                ok = still(cands)
                if ok:
                    steps = cands[ok[0]]
                    changed = True
                else:
                    i = j
    v["behaviour"] = dict(b, steps=steps)
    v["shrunk"] = True
    out = out or path.replace(".json", ".min.json")
    json.dump(v, open(out, "w"), indent=1)
    print("shrunk to %d steps -> %s" % (len(steps), out))
    for s in steps:
        print("  ", json.dumps(s))
    return 0
