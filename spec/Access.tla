------------------------------- MODULE Access -------------------------------
(***************************************************************************)
(* Property C13: the reference monitor of project isolation.               *)
(*                                                                         *)
(* The procedure list (service, procedure, identifying slots of the        *)
(* request) is not written here: it is read from the JSON the harness      *)
(* derives from the generated service descriptors (IOEnv.YPROCS), so a     *)
(* procedure added to a .proto file enlarges the matrix by itself.         *)
(*                                                                         *)
(* World: attacker project A (its owner's admin token, its public and      *)
(* secret key, its own client, document, revision, channel session) and    *)
(* victim project B. Every call in the matrix is issued by the attacker.   *)
(* A slot assigned "foreign" carries B's identifier; "own" carries A's.    *)
(* The monitor serves a call only when the credential is valid for the     *)
(* service and every slot is own; a call it does not serve neither changes *)
(* B nor tells the attacker anything about B.                              *)
(***************************************************************************)
EXTENDS Naturals, Sequences, FiniteSets, TLC, Json, IOUtils, SequencesExt

Procs == ndJsonDeserialize(IOEnv.YPROCS)

CredsOf(svc) ==
  CASE svc = "yorkie"  -> {"none", "bogus", "keyA", "revokedA"}
    [] svc = "admin"   -> {"none", "bogus", "pubkeyB", "tokenA", "secretA", "revokedSecretA"}
    [] svc = "cluster" -> {"none", "bogus", "secret"}

\* credentials that authenticate nobody
InvalidCred(svc, c) ==
  \/ svc = "yorkie"  /\ c \in {"bogus", "revokedA"}       \* revokedA: A's public key from before its keys were rotated
  \/ svc = "admin"   /\ c \in {"none", "bogus", "pubkeyB", "revokedSecretA"}
  \/ svc = "cluster" /\ c \in {"none", "bogus"}

\* admin procedures that authenticate by password instead of a token
PasswordProcs == {"SignUp", "LogIn", "DeleteAccount", "ChangePassword"}

SlotsOf(p) == ToSet(p.slots)

\* a cluster peer holding the secret acts for every project: it is trusted,
\* and the matrix only exercises it on the attacker's own resources
AsgsOf(p, c) ==
  IF p.svc = "cluster" /\ c = "secret" THEN {[s \in SlotsOf(p) |-> "own"]}
  ELSE [SlotsOf(p) -> {"own", "foreign"}]

Cells == UNION { UNION { { [svc |-> Procs[i].svc, proc |-> Procs[i].proc, cred |-> c, asg |-> a]
                          : a \in AsgsOf(Procs[i], c) }
                        : c \in CredsOf(Procs[i].svc) }
                : i \in 1..Len(Procs) }

Foreign(cell) == \E s \in DOMAIN cell.asg : cell.asg[s] = "foreign"

Authorised(cell) == ~InvalidCred(cell.svc, cell.cred) /\ ~Foreign(cell)

VARIABLES last,      \* the call just made (a cell, or NoCall)
          served,    \* did the monitor serve it
          victim,    \* abstract version of B's stored state
          learned    \* facts about B the attacker has learned

vars == <<last, served, victim, learned>>

NoCall == [svc |-> "", proc |-> "", cred |-> "", asg |-> <<>>]

Init == last = NoCall /\ served = FALSE /\ victim = 0 /\ learned = {}

\* One attacker call. The attacker's own state is not modelled: the harness
\* gives it fresh resources for every call.
Call(cell) ==
  /\ last' = cell
  /\ served' = Authorised(cell)
  /\ victim' = victim          \* no call of the attacker writes B
  /\ learned' = learned        \* ... or reads it

Next == \E cell \in Cells : Call(cell)

Spec == Init /\ [][Next]_vars

Isolation == victim = 0 /\ learned = {}
DeniedIfForeign == last.proc # "" /\ Foreign(last) => ~served

\* behaviour generation: every reachable state names one cell
Emit == last.proc = "" \/ PrintT(<<"CELL", ToJson(last)>>)
=============================================================================
