---------------------------- MODULE AccessTrace ----------------------------
(* Decides C13 on the outcomes recorded by `yvh access` (one line per cell  *)
(* of the matrix of Access.tla, executed against a real server hosting an   *)
(* attacker project A and a victim project B).                              *)
(*                                                                          *)
(* Every line carries: the cell; the Connect code of the call; `leak` - did *)
(* a marker of B (its document content, revision label, client key, public  *)
(* or secret key) occur in the response bytes; `changed` - the memdb tables *)
(* (and the in-memory channel sessions) of B whose dump differs before and  *)
(* after the call; and, for a cell with a foreign slot, the same three      *)
(* observations for its twin: the same call with every foreign identifier   *)
(* replaced by one that exists nowhere (gcode, gleak, gchanged).            *)
(*                                                                          *)
(*   NoWrite     no call of the attacker changes a stored row of B          *)
(*   NoRead      no response to the attacker contains a marker of B         *)
(*   NoOracle    a call naming a resource of B is answered exactly like the *)
(*               call naming a resource that does not exist: the attacker   *)
(*               cannot learn that it exists, and in particular is served   *)
(*               only if the nonexistent twin is served too                 *)
(*   Unauth      a credential that authenticates nobody is refused with     *)
(*               `unauthenticated` (admin token, cluster secret) or with    *)
(*               `unauthenticated`/`not_found` (unknown project key)        *)
(*   Monitor     the reference monitor of Access.tla serves no cell that    *)
(*               the implementation served although it is foreign and its   *)
(*               twin was refused (the same fact as NoOracle, stated on the *)
(*               model's verdict)                                           *)
(*   SameKey     identical document keys in A and B are different documents *)
(*   Coverage    every cell of the matrix occurs in the trace               *)
EXTENDS Access

Trace == ndJsonDeserialize(IOEnv.YTRACE)

VARIABLES l, bad, seen
tvars == <<l, bad, seen, vars>>

\* user names are not project resources: whether an account exists is outside C13
ResourceForeign(e) == \E s \in DOMAIN e.asg : e.asg[s] = "foreign" /\ s # "uname"

CellOf(e) == [svc |-> e.svc, proc |-> e.proc, cred |-> e.cred, asg |-> e.asg]

NeedsAuth(e) == ~(e.svc = "admin" /\ e.proc \in PasswordProcs)

CheckCall(e) ==
  (IF Len(e.changed) # 0 \/ Len(e.gchanged) # 0 THEN {"NoWrite"} ELSE {}) \cup
  (IF e.leak \/ e.gleak THEN {"NoRead"} ELSE {}) \cup
  (IF e.twin /\ ResourceForeign(e) /\ e.code # e.gcode THEN {"NoOracle"} ELSE {}) \cup
  (IF (InvalidCred(e.svc, e.cred) \/ (e.svc = "yorkie" /\ e.cred = "none" /\ e.nodefault)) /\ NeedsAuth(e) /\
      ~(e.code = "unauthenticated" \/ (e.svc = "yorkie" /\ e.code = "not_found"))
   THEN {"Unauth"} ELSE {}) \cup
  (IF ResourceForeign(e) /\ ~Authorised(CellOf(e)) /\ e.code = "ok" /\ e.twin /\ e.gcode # "ok"
   THEN {"Monitor"} ELSE {}) \cup
  (IF e.code \in {"harness_marshal"} THEN {"Harness"} ELSE {})

CheckSame(e) ==
  (IF e.leak \/ ~e.distinct THEN {"SameKey"} ELSE {})

Check(e) == IF e.ev = "Call" THEN CheckCall(e) ELSE IF e.ev = "SameKey" THEN CheckSame(e) ELSE {}

TInit == Init /\ l = 1 /\ bad = {} /\ seen = {}
TNext == /\ l <= Len(Trace) /\ l' = l + 1
         /\ LET e == Trace[l] IN
            /\ bad' = bad \cup {[tag |-> t, line |-> l, cell |-> IF e.ev = "Call" THEN CellOf(e) ELSE NoCall] : t \in Check(e)}
            /\ seen' = IF e.ev = "Call" THEN seen \cup {CellOf(e)} ELSE seen
            /\ IF e.ev = "Call" THEN Call(CellOf(e)) ELSE UNCHANGED vars
TSpec == TInit /\ [][TNext]_tvars

Missing == Cells \ seen
TraceAccepted == TLCGet("stats").diameter - 1 = Len(Trace) /\ PrintT(<<"TRACE-ACCEPTED", Len(Trace)>>)
Report == (l = Len(Trace) + 1) =>
            PrintT(<<"VIOLS", ToJson(bad \cup {[tag |-> "Coverage", line |-> 0, cell |-> c] : c \in Missing})>>)
=============================================================================
