------------------------------- MODULE Cache -------------------------------
(***************************************************************************)
(* pkg/cache: the LRU caches the server puts in front of its store         *)
(* (LRU: 16 shards of hashicorp/lru; LRUWithExpires: expirable LRU).       *)
(*                                                                         *)
(* The contract the callers rely on (C20) is look-aside transparency: a    *)
(* hit returns the value most recently Added for that key and nothing      *)
(* else; what is evicted, and when, is the cache's own business. The       *)
(* specification therefore keeps                                           *)
(*   last[k]   the value most recently Added for k ("none" after Remove /  *)
(*             Purge)                                                      *)
(*   held      the keys the cache may still hold                           *)
(* and lets eviction (and, for the expirable cache, expiry after a Sleep   *)
(* longer than the TTL) be a silent step that only shrinks `held`. The one *)
(* thing eviction may not take is the key added last with nothing in       *)
(* between (every shard holds at least one entry).                         *)
(***************************************************************************)
EXTENDS Naturals, Sequences, FiniteSets, TLC, Json

CONSTANTS Keys, Vals, MaxLen, Expiring

VARIABLES last, held, mru, hist
vars == <<last, held, mru, hist>>

None == 0
Init == last = [k \in Keys |-> None] /\ held = {} /\ mru = None /\ hist = <<>>

Add(k, v) ==
  /\ last' = [last EXCEPT ![k] = v]
  /\ held' = held \cup {k}
  /\ mru' = k
  /\ hist' = Append(hist, [op |-> "add", k |-> k, v |-> v])

\* Get/Peek/Contains do not change what a later hit may return
Read(op, k) ==
  /\ UNCHANGED <<last, held>>
  /\ mru' = IF op = "get" THEN mru ELSE mru
  /\ hist' = Append(hist, [op |-> op, k |-> k, v |-> 0])

Remove(k) ==
  /\ last' = [last EXCEPT ![k] = None]
  /\ held' = held \ {k}
  /\ mru' = IF mru = k THEN None ELSE mru
  /\ hist' = Append(hist, [op |-> "remove", k |-> k, v |-> 0])

Purge ==
  /\ last' = [k \in Keys |-> None]
  /\ held' = {}
  /\ mru' = None
  /\ hist' = Append(hist, [op |-> "purge", k |-> 0, v |-> 0])

\* silent: the cache drops an entry (capacity), never the one just added
Evict(k) ==
  /\ k \in held /\ k # mru
  /\ held' = held \ {k}
  /\ UNCHANGED <<last, mru, hist>>

\* time passes beyond the TTL: everything may be gone, nothing older may be served
Sleep ==
  /\ Expiring
  /\ held' = {}
  /\ mru' = None
  /\ UNCHANGED last
  /\ hist' = Append(hist, [op |-> "sleep", k |-> 0, v |-> 0])

Next ==
  \/ \E k \in Keys, v \in Vals : Add(k, v)
  \/ \E k \in Keys, op \in {"get", "peek", "contains"} : Read(op, k)
  \/ \E k \in Keys : Remove(k)
  \/ Purge
  \/ \E k \in Keys : Evict(k)
  \/ Sleep

Spec == Init /\ [][Next]_vars

\* what a hit may return
HitValue(k) == last[k]
\* Transparency, stated on the model: whatever is held has a current value
Transparent == \A k \in held : last[k] # None
MruHeld == mru # None => mru \in held

LenBound == Len(hist) <= MaxLen
Emit == (Len(hist) = MaxLen) => PrintT(<<"BEHAVIOUR", ToJson(hist)>>)
=============================================================================
