----------------------------- MODULE CacheTrace -----------------------------
(* Validates the results of the calls `yvh lru` made on the real pkg/cache    *)
(* caches (both kinds, same behaviour) against Cache.tla:                     *)
(*   HitIsLast       a Get/Peek hit returns the value last Added for the key  *)
(*   ContainsSound   Contains is true only for a key with a current value     *)
(*   RemovedMisses   after Remove(k) / Purge a read of k misses until re-Added *)
(*   MruHits         a read of the key added last (nothing but reads since)   *)
(*                   hits - unless time passed beyond the TTL                 *)
(*   ExpiredMisses   (expirable cache) after a Sleep longer than the TTL every *)
(*                   read misses until the key is Added again                 *)
(*   LenBounded      Len() never exceeds the configured size                  *)
(*   StatsExact      hits + misses = number of Get calls; Peek/Contains do    *)
(*                   not count                                                *)
EXTENDS Integers, Sequences, FiniteSets, TLC, Json, IOUtils
Trace == ndJsonDeserialize(IOEnv.YTRACE)
VARIABLES l, st, bad
vars == <<l, st, bad>>
None == 0
Upd(f, k, v) == [x \in (DOMAIN f) \cup {k} |-> IF x = k THEN v ELSE f[x]]
Val(f, k) == IF k \in DOMAIN f THEN f[k] ELSE None
Empty == [run |-> 0, kind |-> "", last |-> <<>>, fresh |-> <<>>, mru |-> None, gets |-> 0, size |-> 0]
\* fresh[k]: k was Added after the last Sleep (expirable cache)

Step(s, e) ==
  CASE e.op = "reset" -> [Empty EXCEPT !.run = e.run, !.kind = e.kind, !.size = e.size]
    [] e.op = "add" -> [s EXCEPT !.last = Upd(@, e.k, e.v), !.fresh = Upd(@, e.k, 1), !.mru = e.k]
    [] e.op = "remove" -> [s EXCEPT !.last = Upd(@, e.k, None), !.mru = IF @ = e.k THEN None ELSE @]
    [] e.op = "purge" -> [s EXCEPT !.last = <<>>, !.fresh = <<>>, !.mru = None]
    [] e.op = "sleep" -> [s EXCEPT !.fresh = <<>>, !.mru = None]
    [] e.op = "get" -> [s EXCEPT !.gets = @ + 1]
    [] OTHER -> s

Check(s, e) ==
  (IF e.op \in {"get", "peek"} /\ e.hit /\ e.got # Val(s.last, e.k) THEN {"HitIsLast"} ELSE {}) \cup
  (IF e.op = "contains" /\ e.hit /\ Val(s.last, e.k) = None THEN {"ContainsSound"} ELSE {}) \cup
  (IF e.op \in {"get", "peek", "contains"} /\ e.hit /\ Val(s.last, e.k) = None THEN {"RemovedMisses"} ELSE {}) \cup
  (IF e.op \in {"get", "peek", "contains"} /\ ~e.hit /\ s.mru = e.k /\ e.young THEN {"MruHits"} ELSE {}) \cup
  (IF e.op \in {"get", "peek", "contains"} /\ e.hit /\ s.kind = "expiring" /\ Val(s.fresh, e.k) = None THEN {"ExpiredMisses"} ELSE {}) \cup
  (IF e.len > s.size THEN {"LenBounded"} ELSE {}) \cup
  (IF e.op = "end" /\ e.total # s.gets THEN {"StatsExact"} ELSE {})

Init == l = 1 /\ st = Empty /\ bad = {}
Next == /\ l <= Len(Trace) /\ l' = l + 1
        /\ LET e == Trace[l] IN
           /\ st' = Step(st, e)
           /\ bad' = bad \cup {[tag |-> t, run |-> IF e.op = "reset" THEN e.run ELSE st.run, line |-> l] : t \in Check(st, e)}
Spec == Init /\ [][Next]_vars
TraceAccepted == TLCGet("stats").diameter - 1 = Len(Trace) /\ PrintT(<<"TRACE-ACCEPTED", Len(Trace)>>)
Report == (l = Len(Trace) + 1) => PrintT(<<"VIOLS", ToJson(bad)>>)
=============================================================================
