---------------------------- MODULE ChangeStore ----------------------------
(* The per-document change cache of the MongoDB backend                      *)
(* (server/backend/database/mongo/changestore.go) composed the way           *)
(* mongo/client.go uses it: CreateChangeInfos inserts the operation-carrying *)
(* changes and ExpandRange()s the fetched-range bookkeeping over ALL the     *)
(* serverSeqs it assigned (presence-only changes are holes in the store);    *)
(* FindChangeInfosBetweenServerSeqs EnsureChanges() the requested range with *)
(* a fetcher that reads the collection; LRU eviction drops the whole store.  *)
(*                                                                           *)
(* C20: answers served with the cache equal the answers of the underlying    *)
(* store, and the fetcher is never asked for a serverSeq already covered.    *)
EXTENDS Integers, Sequences, FiniteSets, TLC, Json

CONSTANTS N          \* serverSeqs 1..N
VARIABLES db,        \* operation-carrying changes in the collection (ground truth), a set of seqs
          head,      \* DocInfo.ServerSeq: 1..head are assigned; those not in db are presence-only
          tree,      \* ChangeStore.tree (set of cached seqs)
          ranges,    \* ChangeStore.ranges (set of <<from, to>>)
          last,      \* observation of the last call: [op, f, t, fetched, result]
          hist
vars == <<db, head, tree, ranges, last, hist>>

Covered(rs) == UNION {r[1]..r[2] : r \in rs}

\* mergeAdjacentRanges: maximal runs of the covered set
Runs(S) == {<<a, b>> \in S \X S : a <= b /\ (a..b) \subseteq S /\ (a - 1) \notin S /\ (b + 1) \notin S}
Merge(rs) == Runs(Covered(rs))

\* calcMissingRanges(f, t): maximal runs of seqs in f..t neither cached nor covered
Missing(f, t) == Runs({s \in f..t : s \notin tree /\ s \notin Covered(ranges)})

SeqOfSet(S) == [i \in 1..Cardinality(S) |-> CHOOSE x \in S : Cardinality({y \in S : y < x}) = i - 1]
RangesSeq(R) == LET firsts == {r[1] : r \in R}
                IN [i \in 1..Cardinality(R) |-> CHOOSE r \in R : Cardinality({x \in firsts : x < r[1]}) = i - 1]

Init == /\ db = {} /\ head = 0 /\ tree = {} /\ ranges = {}
        /\ last = [op |-> "init", f |-> 0, t |-> 0, fetched |-> <<>>, result |-> <<>>]
        /\ hist = <<>>

\* CreateChangeInfos: k new changes, those in ops carry operations
Push(k, ops) ==
  /\ k >= 1 /\ head + k <= N /\ ops \subseteq (head + 1)..(head + k)
  /\ db' = db \cup ops
  /\ tree' = tree \cup ops
  /\ ranges' = Merge(ranges \cup {<<head + 1, head + k>>})
  /\ head' = head + k
  /\ last' = [op |-> "push", f |-> head + 1, t |-> head + k, fetched |-> <<>>, result |-> SeqOfSet(ops)]
  /\ hist' = Append(hist, [op |-> "push", k |-> k, ops |-> SeqOfSet(ops)])

\* FindChangeInfosBetweenServerSeqs(f, t): EnsureChanges + ChangesInRange
Find(f, t) ==
  /\ 1 <= f /\ f <= t /\ t <= head
  /\ LET miss == Missing(f, t)
         tree2 == tree \cup (db \cap Covered(miss))
     IN /\ tree' = tree2
        /\ ranges' = Merge(ranges \cup miss)
        /\ last' = [op |-> "find", f |-> f, t |-> t, fetched |-> RangesSeq(miss), result |-> SeqOfSet(tree2 \cap (f..t))]
  /\ hist' = Append(hist, [op |-> "find", f |-> f, t |-> t])
  /\ UNCHANGED <<db, head>>

\* the LRU drops the document's store
Evict ==
  /\ tree # {} \/ ranges # {}
  /\ tree' = {} /\ ranges' = {}
  /\ last' = [op |-> "evict", f |-> 0, t |-> 0, fetched |-> <<>>, result |-> <<>>]
  /\ hist' = Append(hist, [op |-> "evict"])
  /\ UNCHANGED <<db, head>>

Next ==
  \/ \E k \in 1..2 : \E ops \in SUBSET ((head + 1)..(head + k)) : Push(k, ops)
  \/ \E f \in 1..N, t \in 1..N : Find(f, t)
  \/ Evict
Spec == Init /\ [][Next]_vars

----------------------------------------------------------------------------
\* C20: what a covered range serves is what the collection holds
RangeTransparent == /\ tree \subseteq db
                    /\ \A s \in Covered(ranges) : s \in db => s \in tree
\* C20: a Find returns exactly the stored operation changes of its range, in order
FindTransparent == last.op = "find" => last.result = SeqOfSet(db \cap (last.f..last.t))
\* ranges are sorted, disjoint and non-adjacent (a canonical set of maximal runs)
RangesCanonical == ranges = Merge(ranges)
\* nothing outside 1..head is ever claimed
RangesBounded == Covered(ranges) \subseteq 1..head

View == <<db, head, tree, ranges>>
MaxLen == 7
Emit == (Len(hist) = MaxLen) => PrintT(<<"BEHAVIOUR", ToJson(hist)>>)
LenBound == Len(hist) <= MaxLen

----------------------------------------------------------------------------
(* Trace validation: the recorded calls on the real mongo.ChangeStore        *)
(* (harness: yvh cstore) must be explainable by this specification: same     *)
(* fetcher calls, same results. NoRefetch is an action property: the ranges  *)
(* fetched by a Find are disjoint from what was cached or covered before.    *)
NoRefetch == [][last'.op = "find" =>
                  \A i \in DOMAIN last'.fetched :
                     \A s \in (last'.fetched[i][1])..(last'.fetched[i][2]) : s \notin tree /\ s \notin Covered(ranges)]_vars
=============================================================================
