-------------------------- MODULE ChangeStoreTrace --------------------------
(* Trace specification: replays the calls recorded from the real             *)
(* mongo.ChangeStore (one JSON object per call, several runs concatenated,   *)
(* each starting with a "reset") against ChangeStore.tla; the fetcher calls  *)
(* and the result of every call must be the ones the specification gives.    *)
EXTENDS ChangeStore, IOUtils
Trace == ndJsonDeserialize(IOEnv.YTRACE)
VARIABLES l, bad
tvars == <<vars, l, bad>>

ToSet(q) == {q[i] : i \in DOMAIN q}
Pairs(q) == [i \in DOMAIN q |-> <<q[i][1], q[i][2]>>]

TraceInit == Init /\ l = 1 /\ bad = {}

Reset == /\ Trace[l].op = "reset"
         /\ db' = {} /\ head' = 0 /\ tree' = {} /\ ranges' = {}
         /\ last' = [op |-> "init", f |-> 0, t |-> 0, fetched |-> <<>>, result |-> <<>>]
         /\ hist' = <<>> /\ bad' = bad

TPush == /\ Trace[l].op = "push"
         /\ Push(Trace[l].k, ToSet(Trace[l].ops))
         /\ bad' = bad

\* the property fixes these values: a disagreement is a violation, recorded per line
TFind == /\ Trace[l].op = "find"
         /\ Find(Trace[l].f, Trace[l].t)
         /\ bad' = bad \cup (IF Pairs(Trace[l].fetched) = last'.fetched THEN {} ELSE {[tag |-> "NoRefetch", line |-> l, run |-> Trace[l].run]})
                       \cup (IF Trace[l].result = last'.result THEN {} ELSE {[tag |-> "RangeTransparent", line |-> l, run |-> Trace[l].run]})

TEvict == /\ Trace[l].op = "evict"
          /\ (Evict \/ (tree = {} /\ ranges = {} /\ UNCHANGED vars))
          /\ bad' = bad

TraceNext == l <= Len(Trace) /\ l' = l + 1 /\ (Reset \/ TPush \/ TFind \/ TEvict)
TraceSpec == TraceInit /\ [][TraceNext]_tvars
TraceAccepted == TLCGet("stats").diameter - 1 = Len(Trace) /\ PrintT(<<"TRACE-ACCEPTED", Len(Trace)>>)
Report == (l = Len(Trace) + 1) => PrintT(<<"VIOLS", ToJson(bad)>>)
=============================================================================
