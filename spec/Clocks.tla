------------------------------- MODULE Clocks -------------------------------
(* Logical clocks of Yorkie as pure operators.                               *)
(*   pkg/document/time/ticket.go, pkg/document/time/version_vector.go,       *)
(*   pkg/document/change/id.go                                               *)
(* A version vector is a function from actor names to lamports; an absent    *)
(* actor counts as 0 (MinVersionVector treats a missing key as 0 and every   *)
(* real lamport is >= 1).                                                    *)
EXTENDS Integers, FiniteSets

Max2(a, b) == IF a >= b THEN a ELSE b
Min2(a, b) == IF a <= b THEN a ELSE b

VVGet(v, a) == IF a \in DOMAIN v THEN v[a] ELSE 0
\* v <= w pointwise (absent = 0)
VVLeq(v, w) == \A a \in DOMAIN v : v[a] <= VVGet(w, a)
VVMax(v, w) == [a \in (DOMAIN v) \cup (DOMAIN w) |-> Max2(VVGet(v, a), VVGet(w, a))]
VVMaxLamport(v) == IF DOMAIN v = {} THEN 0
                   ELSE CHOOSE m \in {v[a] : a \in DOMAIN v} : \A a \in DOMAIN v : v[a] <= m

\* time.MinVersionVector: pointwise minimum over a non-empty set of vectors,
\* over the union of their keys, absent = 0.
MinVV(S) ==
  LET keys == UNION {DOMAIN v : v \in S}
  IN [a \in keys |-> CHOOSE m \in {VVGet(v, a) : v \in S} : \A v \in S : m <= VVGet(v, a)]

\* VersionVector.EqualToOrAfter(ticket): false for an absent actor
Covers(v, actor, lamport) == actor \in DOMAIN v /\ v[actor] >= lamport

\* change.ID.Next(): lamport+1, own entry set to it
NextID(actor, lam, v) ==
  [lam |-> lam + 1, vv |-> [a \in (DOMAIN v) \cup {actor} |-> IF a = actor THEN lam + 1 ELSE v[a]]]

\* change.ID.SyncClocks(other): lamport = max+1, vector = pointwise max with own entry = lamport
SyncClocks(actor, lam, v, olam, ov) ==
  LET l2 == Max2(lam, olam) + 1
      m  == VVMax(v, ov)
  IN [lam |-> l2, vv |-> [a \in (DOMAIN m) \cup {actor} |-> IF a = actor THEN l2 ELSE m[a]]]

\* Ticket order: (lamport, actor, delimiter) lexicographic; actors ordered by Rank
TicketAfter(l1, r1, d1, l2, r2, d2) ==
  \/ l1 > l2
  \/ (l1 = l2 /\ r1 > r2)
  \/ (l1 = l2 /\ r1 = r2 /\ d1 > d2)
=============================================================================
