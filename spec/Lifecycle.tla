----------------------------- MODULE Lifecycle -----------------------------
(***************************************************************************)
(* Property C11, small-scope exhaustive half: the client/document          *)
(* lifecycle as the server documents it (database/client_info.go,          *)
(* rpc/yorkie_server.go), for valid AND invalid calls.                     *)
(*                                                                         *)
(* A call is one of Activate(c), Deactivate(c), Attach(c,d), Sync(c,d)     *)
(* (a PushPull carrying one new change), Detach(c,d), Remove(c,d) (both    *)
(* carrying one new change as well). `Expected` gives the server's         *)
(* decision, what it stores, the flag it answers with and the next state:  *)
(*   - a client writes only while it is activated and has the document     *)
(*     attached; every other Sync/Detach/Remove is refused and stores      *)
(*     nothing and changes nothing                                         *)
(*   - Attach is refused for a deactivated client and for a document the   *)
(*     client already has attached; a detached (or self-removed) document  *)
(*     may be attached again - with a NEW local instance; the instance     *)
(*     that was attached before is refused (reattach)                      *)
(*   - Detach/Deactivate/Remove take effect exactly once; Deactivate       *)
(*     detaches everything the client has attached                         *)
(*   - a removed document stays removed: it stores nothing more and every  *)
(*     later answer carries the removed flag                               *)
(*   - ActivateClient always creates a NEW client identity                 *)
(* TLC explores the state graph once per abstract state (VIEW leaves the   *)
(* history out) and prints, for every (state, call) pair, the shortest     *)
(* history reaching the state followed by the call: the harness executes   *)
(* each through the raw protocol and LifecycleTrace.tla compares.          *)
(***************************************************************************)
EXTENDS Naturals, Sequences, FiniteSets, TLC, Json

CONSTANTS MaxLen, MaxAct
Clients == {"c1", "c2"}
Docs == {"d1", "d2"}
Ops == {"activate", "deactivate", "attach", "reattach", "sync", "detach", "remove"}

InitState == [act |-> [c \in Clients |-> "none"],
              att |-> [k \in Clients \X Docs |-> "none"],
              rem |-> [d \in Docs |-> FALSE],
              known |-> [d \in Docs |-> FALSE],
              nact |-> [c \in Clients |-> 0]]

Call(op, c, d) == [op |-> op, c |-> c, d |-> d]

\* Can the harness issue the call at all (does it hold the ids the call needs)?
Issuable(s, k) ==
  CASE k.op = "activate" -> s.nact[k.c] < MaxAct
    [] k.op = "deactivate" ->
         /\ s.act[k.c] # "none"
         \* known finding KF-DEACTIVATE-REMOVED-DOC (memdb): a client attached to a removed document
         /\ ~\E d \in Docs : s.att[<<k.c, d>>] = "attached" /\ s.rem[d]
    [] k.op = "attach" -> s.act[k.c] # "none" /\ ~s.rem[k.d]      \* a removed key starts a NEW document: out of scope
    \* Attach with the local document instance the client already used for this document (its checkpoint
    \* is ahead of 0): only possible while the client holds such an instance
    [] k.op = "reattach" -> s.act[k.c] # "none" /\ ~s.rem[k.d] /\ s.att[<<k.c, k.d>>] \in {"attached", "detached"}
    [] OTHER -> s.act[k.c] # "none" /\ s.known[k.d]

Holds(s, k) == s.act[k.c] = "active" /\ s.att[<<k.c, k.d>>] = "attached"

\* [ok, stored, flag, s2]
Expected(s, k) ==
  LET key == <<k.c, k.d>>
      same == [ok |-> FALSE, stored |-> 0, flag |-> FALSE, s2 |-> s]
      one == IF s.rem[k.d] THEN 0 ELSE 1
  IN
  CASE k.op = "activate" ->
         [ok |-> TRUE, stored |-> 0, flag |-> FALSE,
          s2 |-> [s EXCEPT !.act[k.c] = "active", !.nact[k.c] = @ + 1,
                           !.att = [x \in Clients \X Docs |-> IF x[1] = k.c THEN "none" ELSE @[x]]]]
    [] k.op = "deactivate" ->
         IF s.act[k.c] # "active" THEN same
         ELSE [ok |-> TRUE, stored |-> 0, flag |-> FALSE,
               s2 |-> [s EXCEPT !.act[k.c] = "inactive",
                                !.att = [x \in Clients \X Docs |-> IF x[1] = k.c /\ @[x] = "attached" THEN "detached" ELSE @[x]]]]
    [] k.op = "attach" ->     \* (like the SDK, the attach request carries one change)
         IF s.act[k.c] # "active" \/ s.att[key] = "attached" THEN same
         ELSE [ok |-> TRUE, stored |-> one, flag |-> FALSE,
               s2 |-> [s EXCEPT !.att[key] = "attached", !.known[k.d] = TRUE]]
    \* a document instance that was attached before cannot be attached again: neither while it still
    \* is attached nor after it was detached (only a new instance can)
    [] k.op = "reattach" -> same
    [] k.op = "sync" ->
         IF ~Holds(s, k) THEN same
         ELSE [ok |-> TRUE, stored |-> one, flag |-> s.rem[k.d], s2 |-> s]
    [] k.op = "detach" ->
         IF ~Holds(s, k) THEN same
         ELSE [ok |-> TRUE, stored |-> one, flag |-> s.rem[k.d], s2 |-> [s EXCEPT !.att[key] = "detached"]]
    [] k.op = "remove" ->
         IF ~Holds(s, k) THEN same
         ELSE [ok |-> TRUE, stored |-> one, flag |-> TRUE,
               s2 |-> [s EXCEPT !.att[key] = "removed", !.rem[k.d] = TRUE]]

VARIABLES st, hist
vars == <<st, hist>>
View == st

Init == st = InitState /\ hist = <<>>

Do(k) ==
  /\ Len(hist) < MaxLen
  /\ Issuable(st, k)
  /\ PrintT(<<"BEHAVIOUR", ToJson(Append(hist, k))>>)
  /\ st' = Expected(st, k).s2
  /\ hist' = Append(hist, k)

Next == \E op \in Ops, c \in Clients, d \in Docs :
          /\ (op \in {"activate", "deactivate"} => d = "d1")     \* the document plays no role
          /\ Do(Call(op, c, d))

Spec == Init /\ [][Next]_vars

\* ---- the lifecycle rules as invariants of the model ----------------------
\* nobody who is not activated has anything attached
OnlyActiveAttached == \A c \in Clients, d \in Docs : st.att[<<c, d>>] = "attached" => st.act[c] = "active"
\* a refused call changes nothing; a served write needs an attached, activated client
RefusedChangesNothing ==
  \A op \in Ops, c \in Clients, d \in Docs :
    LET k == Call(op, c, d) e == Expected(st, k) IN
      /\ (~e.ok => e.s2 = st /\ e.stored = 0)
      /\ ((e.stored > 0) => (Holds(st, k) \/ (op = "attach" /\ st.act[c] = "active")))
      /\ ((e.ok /\ op \in {"sync", "detach", "remove"}) => Holds(st, k))
\* a removed document stays removed and stores nothing
RemovedIsSticky ==
  \A op \in Ops, c \in Clients, d \in Docs :
    LET k == Call(op, c, d) e == Expected(st, k) IN
      st.rem[d] => (e.s2.rem[d] /\ e.stored = 0)
=============================================================================
