-------------------------- MODULE LifecycleTrace --------------------------
(* Validates what `yvh life` recorded - every call of every behaviour that  *)
(* Lifecycle.tla generated, issued through the raw protocol - against       *)
(* Lifecycle!Expected:                                                      *)
(*   Decision        the server serves exactly the calls the state machine  *)
(*                   serves                                                 *)
(*   RefusedCleanly  a refusal is failed_precondition / not_found /         *)
(*                   invalid_argument - never an internal error             *)
(*   StoredExactly   rows appended to the document's log = what the state   *)
(*                   machine says (a refused call and a removed document    *)
(*                   store nothing; a served write stores its one change)   *)
(*   RemovedFlag     the answer carries the removed flag iff the document   *)
(*                   is removed                                             *)
(*   ClientStatus / DocStatus   the status the server keeps for the client  *)
(*                   and for the (client, document) pair                    *)
(*   VVRowIffAttached  the client's version-vector row exists iff it has    *)
(*                   the document attached (a client that left no longer    *)
(*                   holds back garbage collection)                         *)
(*   DocRemoved      the document's removed mark                            *)
EXTENDS Lifecycle, IOUtils
Trace == ndJsonDeserialize(IOEnv.YTRACE)
VARIABLES l, ms, bad
tvars == <<l, ms, bad, vars>>

RejectCodes == {"failed_precondition", "not_found", "invalid_argument"}
StatusName(a) == IF a = "active" THEN "activated" ELSE IF a = "inactive" THEN "deactivated" ELSE ""

Check(s, e) ==
  IF e.ev # "call" THEN {}
  ELSE IF e.skipped THEN {"Skipped"}
  ELSE
  LET k == Call(e.op, e.c, e.d)
      x == Expected(s, k)
      s2 == x.s2
      key == <<e.c, e.d>>
  IN
  (IF (e.code = "ok") # x.ok THEN {"Decision"} ELSE {}) \cup
  (IF e.code # "ok" /\ e.code \notin RejectCodes THEN {"RefusedCleanly"} ELSE {}) \cup
  (IF e.op # "deactivate" /\ e.stored # x.stored THEN {"StoredExactly"} ELSE {}) \cup
  (IF e.code = "ok" /\ e.op \in {"sync", "detach", "remove"} /\ e.removedflag # x.flag THEN {"RemovedFlag"} ELSE {}) \cup
  (IF e.cstatus # StatusName(s2.act[e.c]) THEN {"ClientStatus"} ELSE {}) \cup
  (IF s2.known[e.d] /\ e.dstatus # s2.att[key] THEN {"DocStatus"} ELSE {}) \cup
  (IF s2.known[e.d] /\ e.vvrow # (s2.att[key] = "attached") THEN {"VVRowIffAttached"} ELSE {}) \cup
  (IF s2.known[e.d] /\ e.docremoved # s2.rem[e.d] THEN {"DocRemoved"} ELSE {})

Step(s, e) ==
  IF e.ev = "reset" THEN InitState
  ELSE IF e.skipped THEN s
  ELSE Expected(s, Call(e.op, e.c, e.d)).s2

TInit == Init /\ l = 1 /\ ms = InitState /\ bad = {}
TNext == /\ l <= Len(Trace) /\ l' = l + 1
         /\ LET e == Trace[l] IN
            /\ ms' = Step(ms, e)
            /\ bad' = bad \cup {[tag |-> t, run |-> e.run, line |-> l] : t \in Check(ms, e)}
         /\ UNCHANGED vars
TSpec == TInit /\ [][TNext]_tvars
TraceAccepted == TLCGet("stats").diameter - 1 = Len(Trace) /\ PrintT(<<"TRACE-ACCEPTED", Len(Trace)>>)
Report == (l = Len(Trace) + 1) => PrintT(<<"VIOLS", ToJson(bad)>>)
=============================================================================
