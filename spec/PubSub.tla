---------------------------- MODULE PubSub ----------------------------
(* server/backend/pubsub at the grain of its separately locked steps, for one  *)
(* document key:                                                              *)
(*   Subscribe      = one Upsert under the cmap lock (pubsub.go Subscribe)    *)
(*   Unsubscribe    = sub.Close ; docSubsMap.Get ; subs.Delete(id) ;          *)
(*                    docSubsMap.Delete(cond: empty => close publisher)       *)
(*   Publish        = docSubsMap.Get ; BatchPublisher.Publish (enqueue)       *)
(*   processLoop    = tick or close => flush: snapshot queue and members, one *)
(*                    Subscription.Publish per (member, event) into a         *)
(*                    capacity-1 channel (100 ms timeout = Stall), prune dead *)
(*   consumer       = the watch stream handler receiving from the channel     *)
(* Events are DocChanged notifications; the publisher-side de-duplication and *)
(* the "not to the author itself" filter only remove events a subscriber does *)
(* not need (it pulls everything on any notification), so they are abstracted:*)
(* Delivered asks for the event or any later one of the same batch order.     *)
EXTENDS Integers, Sequences, FiniteSets, TLC

CONSTANTS Subs, Events, MaxGen, Stall   \* Stall: allow send timeouts (consumer slower than 100ms)

Gens == 1..MaxGen
NoGen == 0

VARIABLES
  cur,        \* generation currently stored in docSubsMap for the key, or NoGen
  nextGen,
  members,    \* [Gens -> SUBSET Subs]  Subscriptions.internalMap
  closeSig,   \* [Gens -> BOOLEAN]      publisher closeChan closed
  loop,       \* [Gens -> {"none","idle","flushing","exited"}] processLoop goroutine
  queue,      \* [Gens -> Seq(Events)]  BatchPublisher.events
  batch,      \* [Gens -> Seq(<<sub, event>>)] remaining sends of the current flush
  dead,       \* [Gens -> SUBSET Subs]  dead ids collected by the current flush
  spc,        \* subscriber pc: "new","subscribed","u1","u2","u3","gone"
  sref,       \* generation fetched by Unsubscribe's Get
  closed,     \* [Subs -> BOOLEAN] Subscription.closed
  ch,         \* [Subs -> Seq(Events)] buffered channel, capacity 1
  got,        \* [Subs -> SUBSET Events] consumed by the stream handler
  ppc,        \* publisher pc per event: "new","got","done"
  pref,       \* generation fetched by Publish's Get
  clock, subAt, unsubAt, pubAt   \* ghost: logical times of Subscribe return, Unsubscribe start, Publish call
vars == <<cur, nextGen, members, closeSig, loop, queue, batch, dead, spc, sref, closed, ch, got, ppc, pref, clock, subAt, unsubAt, pubAt>>

Init ==
  /\ cur = NoGen /\ nextGen = 1
  /\ members = [g \in Gens |-> {}] /\ closeSig = [g \in Gens |-> FALSE]
  /\ loop = [g \in Gens |-> "none"] /\ queue = [g \in Gens |-> <<>>]
  /\ batch = [g \in Gens |-> <<>>] /\ dead = [g \in Gens |-> {}]
  /\ spc = [s \in Subs |-> "new"] /\ sref = [s \in Subs |-> NoGen]
  /\ closed = [s \in Subs |-> FALSE] /\ ch = [s \in Subs |-> <<>>] /\ got = [s \in Subs |-> {}]
  /\ ppc = [e \in Events |-> "new"] /\ pref = [e \in Events |-> NoGen]
  /\ clock = 0 /\ subAt = [s \in Subs |-> -1] /\ unsubAt = [s \in Subs |-> -1] /\ pubAt = [e \in Events |-> -1]

\* Subscribe: one Upsert under the cmap lock
Subscribe(s) ==
  /\ spc[s] = "new"
  /\ IF cur = NoGen
     THEN /\ nextGen <= MaxGen
          /\ cur' = nextGen /\ nextGen' = nextGen + 1
          /\ members' = [members EXCEPT ![nextGen] = {s}]
          /\ loop' = [loop EXCEPT ![nextGen] = "idle"]
     ELSE /\ members' = [members EXCEPT ![cur] = @ \cup {s}]
          /\ UNCHANGED <<cur, nextGen, loop>>
  /\ spc' = [spc EXCEPT ![s] = "subscribed"]
  /\ clock' = clock + 1 /\ subAt' = [subAt EXCEPT ![s] = clock + 1]
  /\ UNCHANGED <<closeSig, queue, batch, dead, sref, closed, ch, got, ppc, pref, unsubAt, pubAt>>

\* Unsubscribe: sub.Close ; Get ; subs.Delete(id) ; docSubsMap.Delete(cond)
U1(s) == /\ spc[s] = "subscribed"
         /\ closed' = [closed EXCEPT ![s] = TRUE]
         /\ spc' = [spc EXCEPT ![s] = "u1"]
         /\ clock' = clock + 1 /\ unsubAt' = [unsubAt EXCEPT ![s] = clock + 1]
         /\ UNCHANGED <<cur, nextGen, members, closeSig, loop, queue, batch, dead, sref, ch, got, ppc, pref, subAt, pubAt>>
U2(s) == /\ spc[s] = "u1"
         /\ sref' = [sref EXCEPT ![s] = cur]
         /\ spc' = [spc EXCEPT ![s] = IF cur = NoGen THEN "gone" ELSE "u2"]
         /\ UNCHANGED <<cur, nextGen, members, closeSig, loop, queue, batch, dead, closed, ch, got, ppc, pref, clock, subAt, unsubAt, pubAt>>
U3(s) == /\ spc[s] = "u2"
         /\ members' = [members EXCEPT ![sref[s]] = @ \ {s}]
         /\ spc' = [spc EXCEPT ![s] = "u3"]
         /\ UNCHANGED <<cur, nextGen, closeSig, loop, queue, batch, dead, sref, closed, ch, got, ppc, pref, clock, subAt, unsubAt, pubAt>>
U4(s) == /\ spc[s] = "u3"
         /\ IF cur # NoGen /\ members[cur] = {}
            THEN /\ closeSig' = [closeSig EXCEPT ![cur] = TRUE] /\ cur' = NoGen
            ELSE UNCHANGED <<closeSig, cur>>
         /\ spc' = [spc EXCEPT ![s] = "gone"]
         /\ UNCHANGED <<nextGen, members, loop, queue, batch, dead, sref, closed, ch, got, ppc, pref, clock, subAt, unsubAt, pubAt>>

\* Publish: Get ; enqueue
P1(e) == /\ ppc[e] = "new"
         /\ pref' = [pref EXCEPT ![e] = cur]
         /\ ppc' = [ppc EXCEPT ![e] = IF cur = NoGen THEN "done" ELSE "got"]
         /\ clock' = clock + 1 /\ pubAt' = [pubAt EXCEPT ![e] = clock + 1]
         /\ UNCHANGED <<cur, nextGen, members, closeSig, loop, queue, batch, dead, spc, sref, closed, ch, got, subAt, unsubAt>>
P2(e) == /\ ppc[e] = "got"
         /\ queue' = [queue EXCEPT ![pref[e]] = Append(@, e)]
         /\ ppc' = [ppc EXCEPT ![e] = "done"]
         /\ UNCHANGED <<cur, nextGen, members, closeSig, loop, batch, dead, spc, sref, closed, ch, got, pref, clock, subAt, unsubAt, pubAt>>

\* processLoop: tick or close => flush: snapshot queue and subs.Values()
SeqOfSet(S) == IF S = {} THEN <<>> ELSE
  LET RECURSIVE F(_) F(T) == IF T = {} THEN <<>> ELSE LET x == CHOOSE y \in T : TRUE IN <<x>> \o F(T \ {x}) IN F(S)
FlushStart(g) ==
  /\ loop[g] = "idle"
  /\ (queue[g] # <<>> \/ closeSig[g])      \* an idle tick with nothing to do is a stutter
  /\ LET targets == SeqOfSet(members[g])
         pairs == [i \in 1..(Len(targets) * Len(queue[g])) |->
                     <<targets[((i - 1) \div Len(queue[g])) + 1], queue[g][((i - 1) % Len(queue[g])) + 1]>>]
     IN batch' = [batch EXCEPT ![g] = IF queue[g] = <<>> THEN <<>> ELSE pairs]
  /\ queue' = [queue EXCEPT ![g] = <<>>]
  /\ loop' = [loop EXCEPT ![g] = "flushing"]
  /\ dead' = [dead EXCEPT ![g] = {}]
  /\ UNCHANGED <<cur, nextGen, members, closeSig, spc, sref, closed, ch, got, ppc, pref, clock, subAt, unsubAt, pubAt>>

\* one send of the flush: Subscription.Publish under s.mu
SendStep(g) ==
  /\ loop[g] = "flushing" /\ batch[g] # <<>>
  /\ LET s == Head(batch[g])[1] e == Head(batch[g])[2] IN
     \/ /\ closed[s]                                    \* returns false; sub is dead
        /\ dead' = [dead EXCEPT ![g] = @ \cup {s}]
        /\ UNCHANGED ch
     \/ /\ ~closed[s] /\ Len(ch[s]) < 1                  \* send succeeds
        /\ ch' = [ch EXCEPT ![s] = Append(@, e)]
        /\ UNCHANGED dead
     \/ /\ Stall /\ ~closed[s] /\ Len(ch[s]) >= 1        \* 100 ms timeout: event dropped
        /\ UNCHANGED <<ch, dead>>
  /\ batch' = [batch EXCEPT ![g] = Tail(@)]
  /\ UNCHANGED <<cur, nextGen, members, closeSig, loop, queue, spc, sref, closed, got, ppc, pref, clock, subAt, unsubAt, pubAt>>

FlushEnd(g) ==
  /\ loop[g] = "flushing" /\ batch[g] = <<>>
  /\ members' = [members EXCEPT ![g] = @ \ dead[g]]
  /\ loop' = [loop EXCEPT ![g] = IF closeSig[g] /\ queue[g] = <<>> THEN "exited" ELSE "idle"]
  /\ UNCHANGED <<cur, nextGen, closeSig, queue, batch, dead, spc, sref, closed, ch, got, ppc, pref, clock, subAt, unsubAt, pubAt>>

Recv(s) ==
  /\ ch[s] # <<>>
  /\ got' = [got EXCEPT ![s] = @ \cup {Head(ch[s])}]
  /\ ch' = [ch EXCEPT ![s] = Tail(@)]
  /\ UNCHANGED <<cur, nextGen, members, closeSig, loop, queue, batch, dead, spc, sref, closed, ppc, pref, clock, subAt, unsubAt, pubAt>>

Next == \/ \E s \in Subs : Subscribe(s) \/ U1(s) \/ U2(s) \/ U3(s) \/ U4(s) \/ Recv(s)
        \/ \E e \in Events : P1(e) \/ P2(e)
        \/ \E g \in Gens : FlushStart(g) \/ SendStep(g) \/ FlushEnd(g)
Spec == Init /\ [][Next]_vars

\* quiescent: nothing more the publisher side can do
Quiet == /\ \A e \in Events : ppc[e] = "done"
         /\ \A g \in Gens : queue[g] = <<>> /\ batch[g] = <<>> /\ loop[g] \in {"none", "idle", "exited"}
                            /\ (loop[g] = "idle" => ~closeSig[g])
\* C17: subscribed before the publish was called, not yet unsubscribing => has the event (or is closed)
Delivered ==
  Quiet => \A e \in Events, s \in Subs :
     (subAt[s] >= 0 /\ subAt[s] < pubAt[e] /\ unsubAt[s] < 0)
        => (e \in got[s] \/ e \in {ch[s][i] : i \in 1..Len(ch[s])} \/ closed[s])
\* no leak: when every subscriber is gone, the key is removed and every loop has exited (or will: closeSig set)
NoLeak == (\A s \in Subs : spc[s] = "gone") => (cur = NoGen /\ \A g \in Gens : loop[g] # "none" => closeSig[g])
\* an event enqueued on a closed publisher whose loop already exited is lost silently
NoLostEnqueue == \A g \in Gens : loop[g] = "exited" => queue[g] = <<>>

\* no subscription is closed twice / nothing is sent on a closed channel: by
\* construction of SendStep (closed[s] is tested under the subscription mutex)
\* C17 liveness (checked under fairness of the loop and the consumers, Stall = FALSE):
\* every event published while a subscriber is subscribed is eventually consumed by it or it is closed
Fair == WF_vars(\E g \in Gens : FlushStart(g) \/ SendStep(g) \/ FlushEnd(g)) /\ WF_vars(\E s \in Subs : Recv(s))
             /\ WF_vars(\E e \in Events : P2(e)) /\ WF_vars(\E s \in Subs : U2(s) \/ U3(s) \/ U4(s))
LiveSpec == Spec /\ Fair
EventuallyDelivered ==
  \A e \in Events, s \in Subs :
     [](  (subAt[s] >= 0 /\ pubAt[e] >= 0 /\ subAt[s] < pubAt[e])
          => <>(e \in got[s] \/ closed[s] \/ (unsubAt[s] >= 0)))
=============================================================================
