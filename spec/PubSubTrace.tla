---------------------------- MODULE PubSubTrace ----------------------------
(* Decides C17 on histories recorded from the real pubsub.PubSub under true  *)
(* concurrency (harness: yvh pubsub, race detector on). Calls are logged     *)
(* with start and end under one sequence number. The properties are those of *)
(* PubSub.tla, stated on the history:                                        *)
(*   Delivered  a subscriber whose Subscribe returned before a Publish was   *)
(*              called and that has not started to unsubscribe when the      *)
(*              publisher side is quiet (nine flush windows after the last   *)
(*              Publish returned) has received a notification from that      *)
(*              author after the Publish was called - or its stream closed   *)
(*   NoLeak     once everybody has unsubscribed no subscriber is listed      *)
(*   NoPanic    no send on a closed channel / double close                   *)
(* A consumer that stops reading (stalled) is itself exempt from Delivered:   *)
(* with a one-slot buffer and a 100 ms send timeout later notifications are  *)
(* dropped for it by design; it must not keep the others from getting theirs.*)
EXTENDS Integers, Sequences, FiniteSets, TLC, Json, IOUtils
Trace == ndJsonDeserialize(IOEnv.YTRACE)
VARIABLES l, st, bad
vars == <<l, st, bad>>
Upd(f, k, v) == [x \in (DOMAIN f) \cup {k} |-> IF x = k THEN v ELSE f[x]]
Empty == [run |-> 0, sub |-> <<>>, pubs |-> {}, stalled |-> ""]
NewSub == [subEnd |-> 0, unsubStart |-> 0, unsubEnd |-> 0, closed |-> FALSE, recv |-> {}, key |-> ""]
S(st0, s) == IF s \in DOMAIN st0.sub THEN st0.sub[s] ELSE NewSub

Step(s, e) ==
  CASE e.ev = "reset" -> [run |-> e.run, sub |-> <<>>, pubs |-> {}, stalled |-> e.stalled]
    [] e.ev = "sub.end" -> IF e.ok THEN [s EXCEPT !.sub = Upd(@, e.s, [S(s, e.s) EXCEPT !.subEnd = e.i, !.key = e.key])] ELSE s
    [] e.ev = "unsub.start" -> [s EXCEPT !.sub = Upd(@, e.s, [S(s, e.s) EXCEPT !.unsubStart = e.i])]
    [] e.ev = "unsub.end" -> [s EXCEPT !.sub = Upd(@, e.s, [S(s, e.s) EXCEPT !.unsubEnd = e.i])]
    [] e.ev = "closed" -> [s EXCEPT !.sub = Upd(@, e.s, [S(s, e.s) EXCEPT !.closed = TRUE])]
    [] e.ev = "recv" -> [s EXCEPT !.sub = Upd(@, e.s, [S(s, e.s) EXCEPT !.recv = @ \cup {<<e.from, e.i>>}])]
    [] e.ev = "pub.start" -> [s EXCEPT !.pubs = @ \cup {<<e.p, e.i, e.key>>}]
    [] OTHER -> s

Delivered(s) ==
  \A x \in DOMAIN s.sub : \A p \in s.pubs :
    LET u == s.sub[x] IN
    (u.subEnd > 0 /\ u.subEnd < p[2] /\ u.unsubStart = 0 /\ x # s.stalled /\ u.key = p[3])
      => (u.closed \/ \E r \in u.recv : r[1] = p[1] /\ r[2] > p[2])

Check(s, e) ==
  (IF e.ev = "quiet" /\ ~Delivered(s) THEN {"Delivered"} ELSE {}) \cup
  (IF e.ev = "end" /\ e.ids # 0 THEN {"NoLeak"} ELSE {}) \cup
  (IF (e.ev = "end" /\ e.panics # 0) \/ e.ev = "panic" THEN {"NoPanic"} ELSE {})

Init == l = 1 /\ st = Empty /\ bad = {}
Next == /\ l <= Len(Trace) /\ l' = l + 1
        /\ LET e == Trace[l] s2 == Step(st, e) IN
           /\ st' = s2
           /\ bad' = bad \cup {[tag |-> t, run |-> s2.run, line |-> l] : t \in Check(st, e)}
Spec == Init /\ [][Next]_vars
TraceAccepted == TLCGet("stats").diameter - 1 = Len(Trace) /\ PrintT(<<"TRACE-ACCEPTED", Len(Trace)>>)
Report == (l = Len(Trace) + 1) => PrintT(<<"VIOLS", ToJson(bad)>>)
=============================================================================
