---------------------------- MODULE StressTrace ----------------------------
(* C16, free-running half. Decides the properties on the event trace of a    *)
(* truly parallel workload (`yvh stress`, built with -race, random yields at *)
(* every lock boundary): N steady clients and bursts of late attachers on M  *)
(* documents, compaction attempts in the background, then a quiescent round. *)
(*                                                                           *)
(*   Completion     every call returned, without error, within the bound     *)
(*   LockOrder      a goroutine waits for a lock only while holding locks of *)
(*                  lower rank: doc < pull < attachment < push               *)
(*   LogDense       the stored rows of a document are numbered 1..head       *)
(*   NoDuplicateRow no (actor, clientSeq) is stored twice                    *)
(*   PerActorDense  the rows of one actor carry consecutive clientSeqs in    *)
(*                  server order (nothing lost, nothing reordered)           *)
(*   LogReplayable  the stored changes apply to a fresh document             *)
(*   Converged      after the quiescent round every replica of a document    *)
(*                  that holds no unsent change shows the same content       *)
(*   RefEquiv       ... and it is the content of the change-fed reference    *)
(*   BuildEquiv     the server's rebuild (snapshot cache + log) equals it    *)
EXTENDS Integers, Sequences, FiniteSets, TLC, Json, IOUtils
Trace == ndJsonDeserialize(IOEnv.YTRACE)
VARIABLES l, st, bad
vars == <<l, st, bad>>
Upd(f, k, v) == [x \in (DOMAIN f) \cup {k} |-> IF x = k THEN v ELSE f[x]]
Get(f, k, dflt) == IF k \in DOMAIN f THEN f[k] ELSE dflt
Empty == [run |-> 0, held |-> <<>>, finals |-> <<>>, ref |-> <<>>]

LockRank(lk) == CASE lk = "doc" -> 1 [] lk = "pull" -> 2 [] lk = "attach" -> 3 [] lk = "push" -> 4 [] OTHER -> 9
Ranked(lk) == lk \in {"doc", "pull", "attach", "push"}

Step(s, e) ==
  CASE e.ev = "init" -> [Empty EXCEPT !.run = e.run]
    [] e.ev = "lock" /\ e.op = "acquired" -> [s EXCEPT !.held = Upd(@, e.gid, Get(@, e.gid, {}) \cup {<<e.lock, e.mode, e.key>>})]
    [] e.ev = "lock" /\ e.op = "released" -> [s EXCEPT !.held = Upd(@, e.gid, Get(@, e.gid, {}) \ {<<e.lock, e.mode, e.key>>})]
    [] e.ev = "final" /\ e.pend = 0 -> [s EXCEPT !.finals = Upd(@, e.d, Get(@, e.d, {}) \cup {e.content})]
    [] e.ev = "ref" -> [s EXCEPT !.ref = Upd(@, e.d, e.content)]
    [] OTHER -> s

RowsDense(rows, head) == Len(rows) = head /\ \A i \in DOMAIN rows : rows[i].s = i
NoDup(rows) == \A i, j \in DOMAIN rows : (i # j) => ~(rows[i].actor = rows[j].actor /\ rows[i].cs = rows[j].cs)
\* consecutive rows of one actor carry consecutive client sequence numbers
ActorDense(rows) ==
  \A i, j \in DOMAIN rows :
    (i < j /\ rows[i].actor = rows[j].actor /\ ~\E m \in DOMAIN rows : i < m /\ m < j /\ rows[m].actor = rows[i].actor)
      => rows[j].cs = rows[i].cs + 1

Check(s, e) ==
  (IF e.ev = "call" /\ (~e.ok \/ e.timeout) THEN {"Completion"} ELSE {}) \cup
  (IF e.ev = "edit" /\ ~e.ok THEN {"EditNeverFails"} ELSE {}) \cup
  (IF e.ev = "lock" /\ e.op = "wait" /\ Ranked(e.lock)
      /\ \E x \in Get(s.held, e.gid, {}) : Ranked(x[1]) /\ LockRank(x[1]) >= LockRank(e.lock)
   THEN {"LockOrder"} ELSE {}) \cup
  (IF e.ev = "log" /\ ~RowsDense(e.rows, e.head) THEN {"LogDense"} ELSE {}) \cup
  (IF e.ev = "log" /\ ~NoDup(e.rows) THEN {"NoDuplicateRow"} ELSE {}) \cup
  (IF e.ev = "log" /\ ~ActorDense(e.rows) THEN {"PerActorDense"} ELSE {}) \cup
  (IF e.ev = "ref" /\ ~e.ok THEN {"LogReplayable"} ELSE {}) \cup
  (IF e.ev = "ref" /\ Cardinality(Get(s.finals, e.d, {})) > 1 THEN {"Converged"} ELSE {}) \cup
  (IF e.ev = "ref" /\ e.ok /\ \E c \in Get(s.finals, e.d, {}) : c # e.content THEN {"RefEquiv"} ELSE {}) \cup
  (IF e.ev = "build" /\ (~e.ok \/ e.content # Get(s.ref, e.d, "")) THEN {"BuildEquiv"} ELSE {})

Init == l = 1 /\ st = Empty /\ bad = {}
Next == /\ l <= Len(Trace) /\ l' = l + 1
        /\ LET e == Trace[l] IN
           /\ st' = Step(st, e)
           /\ bad' = bad \cup {[tag |-> t, run |-> IF e.ev = "init" THEN e.run ELSE st.run, line |-> l] : t \in Check(st, e)}
Spec == Init /\ [][Next]_vars
TraceAccepted == TLCGet("stats").diameter - 1 = Len(Trace) /\ PrintT(<<"TRACE-ACCEPTED", Len(Trace)>>)
Report == (l = Len(Trace) + 1) => PrintT(<<"VIOLS", ToJson(bad)>>)
=============================================================================
