----------------------------- MODULE WatchTrace -----------------------------
(* C17 end to end (`yvh watch`): watchers attach with realtime sync - the SDK  *)
(* opens the WatchDocument stream and pulls ONLY when a change event arrives  *)
(* - a writer pushes changes, nobody ever asks a watcher to sync.             *)
(*   WatchEstablished  attaching with a watch succeeds                         *)
(*   WatcherTold       every watcher whose watch is established (and that has  *)
(*                     not left) shows each pushed change within the bound     *)
(*                     (5 s): the notification reached it                      *)
(*   Told exactly the watchers that are on: for every push, each on-watcher    *)
(*   is accounted for by a `seen` or a `timeout` line (Accounted)              *)
EXTENDS Integers, Sequences, FiniteSets, TLC, Json, IOUtils
Trace == ndJsonDeserialize(IOEnv.YTRACE)
VARIABLES l, st, bad
vars == <<l, st, bad>>
Empty == [run |-> 0, on |-> {}, k |-> 0, acc |-> {}]
Step(s, e) ==
  CASE e.ev = "reset" -> [Empty EXCEPT !.run = e.run]
    [] e.ev = "watch.on" -> IF e.ok THEN [s EXCEPT !.on = @ \cup {e.w}] ELSE s
    [] e.ev = "watch.off" -> [s EXCEPT !.on = @ \ {e.w}]
    [] e.ev = "push" -> [s EXCEPT !.k = e.k, !.acc = {}]
    [] e.ev \in {"seen", "timeout"} -> [s EXCEPT !.acc = @ \cup {e.w}]
    [] OTHER -> s
Check(s, e) ==
  (IF e.ev = "watch.on" /\ ~e.ok THEN {"WatchEstablished"} ELSE {}) \cup
  (IF e.ev = "push" /\ ~e.ok THEN {"PushNeverFails"} ELSE {}) \cup
  (IF e.ev = "timeout" /\ e.w \in s.on THEN {"WatcherTold"} ELSE {}) \cup
  (IF e.ev \in {"push", "end", "watch.off"} /\ s.k > 0 /\ ~(s.on \subseteq s.acc) THEN {"Accounted"} ELSE {})
Init == l = 1 /\ st = Empty /\ bad = {}
Next == /\ l <= Len(Trace) /\ l' = l + 1
        /\ LET e == Trace[l] IN
           /\ st' = Step(st, e)
           /\ bad' = bad \cup {[tag |-> t, run |-> IF e.ev = "reset" THEN e.run ELSE st.run, line |-> l] : t \in Check(st, e)}
Spec == Init /\ [][Next]_vars
TraceAccepted == TLCGet("stats").diameter - 1 = Len(Trace) /\ PrintT(<<"TRACE-ACCEPTED", Len(Trace)>>)
Report == (l = Len(Trace) + 1) => PrintT(<<"VIOLS", ToJson(bad)>>)
=============================================================================
