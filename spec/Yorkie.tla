------------------------------- MODULE Yorkie -------------------------------
(* System specification of Yorkie's synchronisation protocol at the grain of *)
(* one request handler per action (the fine-grained variant, one action per  *)
(* critical section, is YorkieFG.tla). Content-free: what a change *does* to *)
(* the document is an opaque operation token; what the protocol does with    *)
(* changes (sequence numbers, checkpoints, pull ranges, own-change filter,   *)
(* snapshot choice, version vectors, minimum vector, lifecycle, epochs,      *)
(* removal) is modelled as the code does it.                                 *)
(*                                                                           *)
(*  code map                                                                 *)
(*   Attach       client.attachDocument -> rpc AttachDocument -> PushPull    *)
(*   Edit         document.Update (one change per call)                      *)
(*   Sync         client.pushPullChanges -> rpc PushPullChanges -> PushPull  *)
(*   Detach       client.detachDocument -> rpc DetachDocument -> PushPull    *)
(*   Remove       client.Remove -> rpc RemoveDocument -> PushPull            *)
(*   Deactivate   clients.Deactivate: cluster DetachDocument per attachment  *)
(*   Compact      packs.Compact (documents.CompactDocument)                  *)
(*   Build/Evict  packs.BuildInternalDocForServerSeq / LRU eviction          *)
(*   Undo/Redo    document.Undo/Redo (produce ordinary changes)              *)
(*                                                                           *)
(* The variable `hist` records the behaviour as the step list the harness    *)
(* executes (mechanism G); it is hidden by VIEW in exhaustive checks of the  *)
(* design-level invariants and kept in generation configs.                   *)
EXTENDS Integers, Sequences, FiniteSets, TLC, Json, Clocks

CONSTANTS
  ClientSeq,    \* e.g. <<"c1", "c2">>  (names ordered like the real actor ids)
  Late,         \* clients that do not attach during set-up (they may attach later)
  InitEdits,    \* number of changes the first client makes to set the document up
  Editors,      \* subset of Clients allowed to edit
  MaxEdits,     \* edits per editor
  MaxSyncs,     \* sync calls per client
  Alphabet,     \* set of operation tokens [k, a, b, v]
  Feat,         \* enabled features, subset of FeatAll
  Threshold,    \* project snapshot threshold
  MaxSess,      \* attachment sessions per client
  MaxCompact,   \* compactions
  MaxUndo,      \* undo/redo calls per client
  MaxFaults,    \* injected storage faults / lost responses per behaviour
  MinLen,       \* a behaviour may also finish once it has this many steps (lifecycle
                \* features can make it impossible to use up the edit budget)
  BuildBack,    \* Build(n) rebuilds the document at head-n for n in 0..BuildBack
  SyncWeight    \* simulation only: how many times the Sync disjunct is replicated (TLC's
                \* simulator picks uniformly among generated successors; a large
                \* alphabet would otherwise starve syncs). No effect on the state graph.

FeatAll == {"detach", "reattach", "remove", "compact", "force", "deactivate", "pushonly", "revision",
            "gcoff", "build", "evict", "undo", "lateattach", "idle", "fail", "nopres", "kf-deactivate-removed", "fault", "kf-retry-dup"}

Doc == "d1"
Clients == {ClientSeq[i] : i \in DOMAIN ClientSeq}
Rank(c) == CHOOSE i \in DOMAIN ClientSeq : ClientSeq[i] = c
First == ClientSeq[1]
VARIABLES srv, cl, hist, done
vars == <<srv, cl, hist, done>>

NoVV == <<>>
FreshRep == [st |-> "none", sess |-> 0, cp |-> [s |-> 0, c |-> 0], pend |-> <<>>, lam |-> 0, vv |-> NoVV,
             applied |-> {}, gcoff |-> FALSE, epoch |-> 0, undo |-> 0, redo |-> 0]

Init ==
  /\ srv = [log |-> <<>>, epoch |-> 0, removed |-> FALSE, exists |-> FALSE,
            ci |-> [c \in Clients |-> [st |-> "none", s |-> 0, c |-> 0, epoch |-> 0]],
            rows |-> [c \in Clients |-> [has |-> FALSE, vv |-> NoVV]],
            ncompact |-> 0, cache |-> -1, setup |-> FALSE, nfaults |-> 0, nrev |-> 0, nrestore |-> 0]
  /\ cl = [c \in Clients |-> [FreshRep EXCEPT !.st = "none"] @@ [active |-> TRUE, edits |-> 0, syncs |-> 0, nundo |-> 0]]
  /\ hist = <<>>
  /\ done = FALSE

LogHead == Len(srv.log)
RowId(r) == <<r.actor, r.sess, r.cs>>

----------------------------------------------------------------------------
(* The server handler: packs.PushPull as one atomic step.                    *)
(* req = [c, sess, cp, chs, vv, status, pushonly, gcoff, removed]            *)
(* returns [srv, res] where res = [ok, cp, pulled (seq of log indexes), snap,*)
(* min, hasmin, removed, err]                                                *)

Pushables(req, ci) == SelectSeq(req.chs, LAMBDA ch : ch.cs > ci.c)

Handle(s, req) ==
  LET c == req.c
      ci == s.ci[c]
      stale == ci.epoch # s.epoch
      push == IF stale THEN <<>> ELSE Pushables(req, ci)
      init == Len(s.log)
      rows == [i \in DOMAIN push |-> [actor |-> c, sess |-> req.sess, cs |-> push[i].cs, lam |-> push[i].lam, vv |-> push[i].vv]]
      log2 == s.log \o rows
      cpc == IF push = <<>> THEN ci.c ELSE push[Len(push)].cs
      removed2 == s.removed \/ req.removed
      \* preparePack
      pushonly == req.pushonly
      refused == stale /\ req.status = "attached"    \* push-only too (repaired: a push-only stale client was served)
      badseq == ~stale /\ init < req.cp.s
      snap == ~pushonly /\ ~stale /\ ~badseq /\ (init - req.cp.s >= Threshold)
      idx == {i \in (req.cp.s + 1)..init : ~(log2[i].actor = c /\ cpc >= log2[i].cs)}
      pulled == IF pushonly \/ stale \/ snap \/ badseq THEN <<>>
                ELSE [i \in 1..Cardinality(idx) |-> CHOOSE j \in idx : Cardinality({x \in idx : x < j}) = i - 1]
      rescp == IF pushonly \/ stale THEN [s |-> req.cp.s, c |-> cpc] ELSE [s |-> Len(log2), c |-> cpc]
      ok == ~refused /\ ~badseq
      \* SetStatus + VVSet + VVMin + SaveClient (only reached when ok)
      ci2 == CASE req.status = "attached" -> [ci EXCEPT !.s = Max2(@, rescp.s), !.c = Max2(@, rescp.c)]
               [] OTHER -> [ci EXCEPT !.st = req.status, !.s = 0, !.c = 0]
      rows2 == IF req.gcoff THEN s.rows
               ELSE IF req.status = "attached" THEN [s.rows EXCEPT ![c] = [has |-> TRUE, vv |-> req.vv]]
               ELSE [s.rows EXCEPT ![c] = [has |-> FALSE, vv |-> NoVV]]
      min == MinVV({req.vv} \cup {rows2[x].vv : x \in {y \in Clients : rows2[y].has}})
      s2 == [s EXCEPT !.log = log2, !.removed = removed2]      \* Create happens even if the request fails later
      s3 == IF ok THEN [s2 EXCEPT !.ci = [@ EXCEPT ![c] = ci2], !.rows = rows2] ELSE s2
  IN [srv |-> s3,
      res |-> [ok |-> ok, cp |-> rescp, pulled |-> pulled, snap |-> snap, min |-> min, hasmin |-> ~req.gcoff,
               removed |-> removed2, stale |-> stale, head |-> Len(log2)]]

----------------------------------------------------------------------------
(* The client: document.ApplyChangePack *)

RECURSIVE ApplyRows(_, _, _, _)
ApplyRows(c, r, log, idxs) ==
  IF idxs = <<>> THEN r
  ELSE LET row == log[Head(idxs)]
           clk == row.lam # 0
           nid == IF ~clk THEN [lam |-> r.lam, vv |-> r.vv]
                  ELSE IF r.gcoff
                       THEN [lam |-> Max2(r.lam, row.lam) + 1,
                             vv |-> [a \in (DOMAIN r.vv) \cup {c} |-> IF a = c THEN Max2(r.lam, row.lam) + 1 ELSE r.vv[a]]]
                       ELSE SyncClocks(c, r.lam, r.vv, row.lam, row.vv)
       IN ApplyRows(c, [r EXCEPT !.lam = nid.lam, !.vv = nid.vv, !.applied = @ \cup {RowId(row)}], log, Tail(idxs))

ApplyResponse(c, r, s, res) ==
  IF ~res.ok THEN r
  ELSE LET r1 == IF res.snap
                 THEN LET n == res.cp.s
                          rows == {s.log[i] : i \in 1..n}
                          clk == {x \in rows : x.lam # 0}
                          RECURSIVE J(_, _)
                          J(S, acc) == IF S = {} THEN acc ELSE LET x == CHOOSE y \in S : TRUE IN J(S \ {x}, VVMax(acc, x.vv))
                          svv == J(clk, NoVV)
                          l2 == Max2(r.lam, VVMaxLamport(svv)) + 1
                          m == VVMax(r.vv, svv)
                      IN [r EXCEPT !.applied = @ \cup {RowId(x) : x \in rows}, !.lam = l2,
                                   !.vv = [a \in (DOMAIN m) \cup {c} |-> IF a = c THEN l2 ELSE m[a]],
                                   !.undo = 0, !.redo = 0]
                 ELSE ApplyRows(c, r, s.log, res.pulled)
           keep == SelectSeq(r1.pend, LAMBDA ch : ch.cs > res.cp.c)
       IN [r1 EXCEPT !.pend = keep,
                     !.cp = [s |-> Max2(@.s, res.cp.s), c |-> Max2(@.c, res.cp.c)],
                     !.st = IF res.removed THEN "removed" ELSE @]

\* a new local change (document.Update / Undo / Redo); clock-free for presence-only
NewChange(c, r, clocked) ==
  LET cs == r.cp.c + Len(r.pend) + 1
      nid == IF clocked THEN NextID(c, r.lam, r.vv) ELSE [lam |-> r.lam, vv |-> r.vv]
      ch == [cs |-> cs, lam |-> IF clocked THEN nid.lam ELSE 0, vv |-> IF clocked THEN nid.vv ELSE NoVV]
  IN [r EXCEPT !.pend = Append(@, ch), !.lam = nid.lam, !.vv = nid.vv, !.applied = @ \cup {<<c, r.sess, cs>>}]

Request(c, r, status, pushonly, removed) ==
  [c |-> c, sess |-> r.sess, cp |-> [s |-> r.cp.s, c |-> r.cp.c + Len(r.pend)], chs |-> r.pend, vv |-> r.vv,
   status |-> status, pushonly |-> pushonly, gcoff |-> r.gcoff, removed |-> removed]

Log(step) == hist' = Append(hist, step)

----------------------------------------------------------------------------
(* Actions *)

\* set-up phase: the first client attaches, builds the initial document and
\* syncs; then the other initial clients attach in rank order.
SetupOver == srv.setup /\ \A x \in Clients \ Late : cl[x].sess >= 1

Attach(c, gcoff, nopres) ==
  /\ ~done /\ cl[c].active /\ cl[c].st \in {"none", "detached"}
  /\ nopres => "nopres" \in Feat
  /\ IF c = First /\ ~srv.exists THEN TRUE
     ELSE IF ~SetupOver
          THEN srv.setup /\ c \notin Late /\ cl[c].sess = 0 /\ ~gcoff /\ \A x \in Clients \ Late : Rank(x) < Rank(c) => cl[x].sess >= 1
          ELSE (c \in Late /\ cl[c].sess = 0) \/ cl[c].st = "detached"
  /\ cl[c].st = "detached" => "reattach" \in Feat
  /\ cl[c].sess < MaxSess
  /\ gcoff => "gcoff" \in Feat
  /\ ~srv.removed
  /\ LET r0 == [FreshRep EXCEPT !.sess = cl[c].sess + 1, !.gcoff = gcoff, !.epoch = srv.epoch] @@ cl[c]
         r1 == NewChange(c, r0, FALSE)                 \* presence initialisation (clock-free)
         \* clients.AttachDocument: ClientDocInfo reset to attached, (0,0), current epoch
         s1 == [srv EXCEPT !.ci = [@ EXCEPT ![c] = [st |-> "attached", s |-> 0, c |-> 0, epoch |-> srv.epoch]], !.exists = TRUE]
         h == Handle(s1, Request(c, r1, "attached", FALSE, FALSE))
         r2 == ApplyResponse(c, r1, h.srv, h.res)
     IN /\ srv' = h.srv
        /\ cl' = [cl EXCEPT ![c] = [r2 EXCEPT !.st = IF h.res.ok /\ r2.st # "removed" THEN "attached" ELSE @]]
  /\ Log([a |-> "attach", c |-> c, d |-> Doc, opt |-> [gcoff |-> gcoff, nopres |-> nopres]])
  /\ UNCHANGED done

\* the first client creates the containers and the initial content (InitEdits
\* changes) and pushes them
RECURSIVE NChanges(_, _, _)
NChanges(c, r, n) == IF n = 0 THEN r ELSE NChanges(c, NewChange(c, r, TRUE), n - 1)
Setup ==
  /\ ~done /\ ~srv.setup /\ cl[First].st = "attached"
  /\ LET r1 == NChanges(First, cl[First], InitEdits)
         h == Handle(srv, Request(First, r1, "attached", FALSE, FALSE))
         r2 == ApplyResponse(First, r1, h.srv, h.res)
     IN /\ srv' = [h.srv EXCEPT !.setup = TRUE]
        /\ cl' = [cl EXCEPT ![First] = r2]
  /\ Log([a |-> "setupsync", c |-> First, d |-> Doc])
  /\ UNCHANGED done

Edit(c, op) ==
  /\ ~done /\ SetupOver /\ c \in Editors /\ cl[c].st = "attached" /\ cl[c].edits < MaxEdits
  /\ cl' = [cl EXCEPT ![c] = [NewChange(c, @, op.k # "pres.set") EXCEPT !.edits = @ + 1, !.undo = @ + 1, !.redo = 0]]
  /\ Log([a |-> "edit", c |-> c, d |-> Doc, op |-> op])
  /\ UNCHANGED <<srv, done>>

\* document.Update whose updater fails after the operation ran on the clone:
\* all-or-nothing (C08) - no change, nothing else moves
FailedEdit(c, op, how) ==
  /\ ~done /\ SetupOver /\ "fail" \in Feat /\ c \in Editors /\ cl[c].st = "attached" /\ cl[c].edits < MaxEdits
  /\ cl' = [cl EXCEPT ![c] = [@ EXCEPT !.edits = @ + 1]]
  /\ Log([a |-> "edit", c |-> c, d |-> Doc, op |-> op, opt |-> [fail |-> how]])
  /\ UNCHANGED <<srv, done>>

Undo(c) ==
  /\ ~done /\ SetupOver /\ "undo" \in Feat /\ cl[c].st = "attached" /\ cl[c].undo > 0 /\ cl[c].nundo < MaxUndo
  /\ cl' = [cl EXCEPT ![c] = [NewChange(c, @, TRUE) EXCEPT !.undo = @ - 1, !.redo = @ + 1, !.nundo = @ + 1]]
  /\ Log([a |-> "undo", c |-> c, d |-> Doc])
  /\ UNCHANGED <<srv, done>>

Redo(c) ==
  /\ ~done /\ SetupOver /\ "undo" \in Feat /\ cl[c].st = "attached" /\ cl[c].redo > 0 /\ cl[c].nundo < MaxUndo
  /\ cl' = [cl EXCEPT ![c] = [NewChange(c, @, TRUE) EXCEPT !.undo = @ + 1, !.redo = @ - 1, !.nundo = @ + 1]]
  /\ Log([a |-> "redo", c |-> c, d |-> Doc])
  /\ UNCHANGED <<srv, done>>

Sync(c, pushonly) ==
  /\ ~done /\ SetupOver /\ cl[c].active /\ cl[c].st = "attached" /\ cl[c].syncs < MaxSyncs
  /\ pushonly => "pushonly" \in Feat
  /\ ("idle" \in Feat \/ cl[c].pend # <<>> \/ cl[c].cp.s < LogHead \/ cl[c].epoch # srv.epoch)
  /\ LET h == Handle(srv, Request(c, cl[c], "attached", pushonly, FALSE))
         r2 == ApplyResponse(c, cl[c], h.srv, h.res)
     IN /\ srv' = h.srv
        /\ cl' = [cl EXCEPT ![c] = [r2 EXCEPT !.syncs = @ + 1]]
  /\ Log([a |-> "sync", c |-> c, d |-> Doc, opt |-> [pushonly |-> pushonly]])
  /\ UNCHANGED done

\* C05: a sync whose handling fails at one storage call (error returned before or
\* after the call took effect) or whose response is lost; the client keeps its
\* state and resends the identical pack with its next sync.
\*   "CreateChangeInfos:before"            nothing happened
\*   "UpdateClientInfoAfterPushPull:after" everything is stored, the response is lost
\*   the points in between (rows stored, checkpoint not) are known finding
\*   KF-RETRY-DUPLICATES and generated only with feature kf-retry-dup
FaultPoints == {"CreateChangeInfos:before", "UpdateClientInfoAfterPushPull:after"} \cup
               (IF "kf-retry-dup" \in Feat
                THEN {"CreateChangeInfos:after", "FindChangeInfosBetweenServerSeqs:before", "UpdateMinVersionVector:before",
                      "UpdateMinVersionVector:after", "UpdateClientInfoAfterPushPull:before"}
                ELSE {})
FaultySync(c, fp) ==
  /\ ~done /\ SetupOver /\ "fault" \in Feat /\ srv.nfaults < MaxFaults
  /\ cl[c].active /\ cl[c].st = "attached" /\ cl[c].syncs < MaxSyncs /\ cl[c].epoch = srv.epoch /\ ~srv.removed
  /\ LET h == Handle(srv, Request(c, cl[c], "attached", FALSE, FALSE))
         \* what the fault leaves behind on the server
         s2 == CASE fp = "CreateChangeInfos:before" -> srv
                 [] fp = "UpdateClientInfoAfterPushPull:after" -> h.srv
                 [] fp \in {"UpdateMinVersionVector:after", "UpdateClientInfoAfterPushPull:before"} ->
                      [h.srv EXCEPT !.ci = srv.ci]                       \* rows + vector row stored, checkpoint not
                 [] OTHER -> [srv EXCEPT !.log = h.srv.log]              \* rows stored only
     IN srv' = [s2 EXCEPT !.nfaults = @ + 1]
  /\ cl' = [cl EXCEPT ![c] = [@ EXCEPT !.syncs = @ + 1]]
  /\ Log([a |-> "sync", c |-> c, d |-> Doc, opt |-> [pushonly |-> FALSE, fault |-> fp]])
  /\ UNCHANGED done

Detach(c) ==
  /\ ~done /\ SetupOver /\ "detach" \in Feat /\ cl[c].active /\ cl[c].st = "attached"
  /\ LET r1 == NewChange(c, cl[c], FALSE)               \* presence clear
         h == Handle(srv, Request(c, r1, "detached", FALSE, FALSE))
         r2 == ApplyResponse(c, r1, h.srv, h.res)
     IN /\ srv' = h.srv
        /\ cl' = [cl EXCEPT ![c] = [r2 EXCEPT !.st = IF h.res.ok /\ r2.st # "removed" THEN "detached" ELSE @]]
  /\ Log([a |-> "detach", c |-> c, d |-> Doc])
  /\ UNCHANGED done

Remove(c) ==
  /\ ~done /\ SetupOver /\ "remove" \in Feat /\ cl[c].active /\ cl[c].st = "attached"
  /\ LET h == Handle(srv, Request(c, cl[c], "removed", FALSE, TRUE))
         r2 == ApplyResponse(c, cl[c], h.srv, h.res)
     IN /\ srv' = h.srv
        /\ cl' = [cl EXCEPT ![c] = r2]
  /\ Log([a |-> "remove", c |-> c, d |-> Doc])
  /\ UNCHANGED done

\* clients.Deactivate: a push-only cluster DetachDocument carrying a presence
\* clear made by the server on the client's behalf, then DB.DeactivateClient
Deactivate(c) ==
  /\ ~done /\ SetupOver /\ "deactivate" \in Feat /\ cl[c].active /\ cl[c].st \in {"attached", "detached"}
  \* guard of known finding KF-DEACTIVATE-REMOVED-DOC (filter inside Next): not while
  \* the client is still attached to a document that a peer has removed
  /\ ("kf-deactivate-removed" \in Feat \/ ~(srv.removed /\ srv.ci[c].st = "attached"))
  /\ LET ci == srv.ci[c]
         att == ci.st = "attached"
         s2 == IF att
               THEN [srv EXCEPT !.ci = [@ EXCEPT ![c] = [@ EXCEPT !.st = "detached", !.s = 0, !.c = 0]],
                                !.rows = [@ EXCEPT ![c] = [has |-> FALSE, vv |-> NoVV]]]
               ELSE srv
     IN srv' = s2
  /\ cl' = [cl EXCEPT ![c] = [@ EXCEPT !.active = FALSE]]
  /\ Log([a |-> "deactivate", c |-> c, d |-> Doc])
  /\ UNCHANGED done

Compact(force) ==
  /\ ~done /\ SetupOver /\ "compact" \in Feat /\ srv.exists /\ srv.ncompact < MaxCompact /\ ~srv.removed
  /\ force => "force" \in Feat
  /\ LET attached == \E c \in Clients : srv.ci[c].st \in {"attached", "attaching"}
         ok == force \/ ~attached
     IN srv' = IF ok
               THEN [srv EXCEPT !.epoch = @ + 1, !.ncompact = @ + 1, !.cache = -1,
                                !.log = IF srv.log = <<>> THEN <<>>
                                        ELSE <<[actor |-> "init", sess |-> srv.epoch + 1, cs |-> 1, lam |-> 1, vv |-> [init |-> 1]]>>,
                                !.rows = [c \in Clients |-> [has |-> FALSE, vv |-> NoVV]]]
               ELSE [srv EXCEPT !.ncompact = @ + 1]
  /\ Log([a |-> "compact", d |-> Doc, opt |-> [force |-> force]])
  /\ UNCHANGED <<cl, done>>

Build(n) ==
  /\ ~done /\ SetupOver /\ "build" \in Feat /\ srv.exists /\ n <= LogHead /\ srv.cache # LogHead - n
  /\ srv' = [srv EXCEPT !.cache = LogHead - n]
  /\ Log([a |-> "build", d |-> Doc, n |-> n])
  /\ UNCHANGED <<cl, done>>

Evict ==
  /\ ~done /\ SetupOver /\ "evict" \in Feat /\ srv.cache # -1
  /\ srv' = [srv EXCEPT !.cache = -1]
  /\ Log([a |-> "evict", d |-> Doc])
  /\ UNCHANGED <<cl, done>>

\* server/revisions: a revision keeps the document's content (as YSON) at the current head; restoring it
\* pushes one change of the system client that rewrites the root to that content (C18)
Revision ==
  /\ ~done /\ SetupOver /\ "revision" \in Feat /\ srv.exists /\ ~srv.removed /\ srv.nrev < 1
  /\ srv' = [srv EXCEPT !.nrev = @ + 1]
  /\ Log([a |-> "revision", d |-> Doc])
  /\ UNCHANGED <<cl, done>>

Restore ==
  /\ ~done /\ SetupOver /\ "revision" \in Feat /\ srv.nrev > 0 /\ srv.nrestore < 1 /\ ~srv.removed
  /\ srv' = [srv EXCEPT !.nrestore = @ + 1]
  /\ Log([a |-> "restore", d |-> Doc])
  /\ UNCHANGED <<cl, done>>

AllEdited == \A c \in Editors : cl[c].edits = MaxEdits
Finish == ~done /\ SetupOver /\ (AllEdited \/ Len(hist) >= MinLen) /\ done' = TRUE /\ UNCHANGED <<srv, cl, hist>>

Next ==
  \/ \E c \in Clients :
       \/ \E g, np \in BOOLEAN : Attach(c, g, np)
       \/ \E op \in Alphabet : Edit(c, op)
       \/ \E op \in Alphabet, how \in {"err", "panic"} : FailedEdit(c, op, how)
       \/ \E w \in 1..SyncWeight : Sync(c, FALSE)
       \/ Sync(c, TRUE)
       \/ \E fp \in FaultPoints : FaultySync(c, fp)
       \/ Detach(c) \/ Remove(c) \/ Deactivate(c) \/ Undo(c) \/ Redo(c)
  \/ Setup
  \/ Compact(FALSE) \/ Compact(TRUE)
  \/ \E n \in 0..BuildBack : Build(n)
  \/ Evict
  \/ Revision \/ Restore
  \/ Finish

Spec == Init /\ [][Next]_vars

----------------------------------------------------------------------------
(* Design-level properties of the protocol (checked exhaustively by TLC for  *)
(* small constants; the same formulas, on logged state, are in YorkieTrace). *)

\* C04: per (actor, session) the clientSeqs in the log are 1..k in log order
PerSessionDense ==
  \A i \in 1..LogHead :
    LET r == srv.log[i]
        mine == {j \in 1..i : srv.log[j].actor = r.actor /\ srv.log[j].sess = r.sess}
    IN r.actor = "init" \/ r.cs = Cardinality(mine)

NoDuplicateRow == \A i, j \in 1..LogHead : i < j => RowId(srv.log[i]) # RowId(srv.log[j])

\* C04: everything at or below a replica's checkpoint has been applied
NoGapBelowCheckpoint ==
  \A c \in Clients :
    (cl[c].st \in {"attached", "detached"} /\ cl[c].epoch = srv.epoch)
       => \A i \in 1..LogHead : i <= cl[c].cp.s => RowId(srv.log[i]) \in cl[c].applied

CheckpointBound == \A c \in Clients : cl[c].epoch = srv.epoch => cl[c].cp.s <= LogHead /\ srv.ci[c].s <= LogHead

\* C06
OwnEntry == \A i \in 1..LogHead : srv.log[i].lam # 0 => VVGet(srv.log[i].vv, srv.log[i].actor) = srv.log[i].lam
UniqueTicket ==
  \A i, j \in 1..LogHead : (i < j /\ srv.log[i].lam # 0 /\ srv.log[j].lam # 0)
     => <<srv.log[i].lam, srv.log[i].actor>> # <<srv.log[j].lam, srv.log[j].actor>>

\* C06: the stored row of an attached participating client never exceeds what it holds
RowSound == \A c \in Clients : srv.rows[c].has => VVLeq(srv.rows[c].vv, cl[c].vv)

\* C11: rows only for attached clients
RowsOnlyForAttached == \A c \in Clients : srv.rows[c].has => srv.ci[c].st = "attached"

\* C10: a stale replica never has its changes in the current log
StaleNeverStored ==
  \A i \in 1..LogHead : srv.log[i].actor = "init" \/
     \A c \in Clients : (srv.log[i].actor = c /\ srv.log[i].sess = cl[c].sess) => cl[c].epoch = srv.epoch

View == <<srv, cl, done>>

\* generation: print each finished behaviour once
Emit == done => PrintT(<<"BEHAVIOUR", ToJson(hist)>>)
=============================================================================
