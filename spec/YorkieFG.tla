------------------------------ MODULE YorkieFG ------------------------------
(* Fine-grained specification of the request handlers: one action per        *)
(* critical section / gate of server/rpc/yorkie_server.go PushPullChanges,   *)
(* DetachDocument, server/rpc/cluster_server.go DetachDocument,              *)
(* server/documents.CompactDocument and server/packs/pushpull.go PushPull.   *)
(* Several requests (also of the SAME client: a retry overlapping the        *)
(* original) run concurrently; TLC explores every interleaving of their      *)
(* steps. The step names are the gates of the harness' scheduler (hook       *)
(* points of build tag verif), so a behaviour of this specification - the    *)
(* sequence of request ids in `hist` - can be forced on the real server.     *)
(*                                                                           *)
(*  pc            gate (where the goroutine is parked)        next action    *)
(*  "new"         not started                                 Start          *)
(*  "w_doc"       lock.wait doc (R or W)                      AcqDoc         *)
(*  "w_pull"      lock.wait doc-pull(client)                  AcqPull (+ FindActiveClientInfo) *)
(*  "enter"       pp.enter                                    Validate       *)
(*  "w_push"      lock.wait doc-push                          AcqPush        *)
(*  "create"      pp.create.before                            Create         *)
(*  "created"     pp.create.after                             RelPush        *)
(*  "pull"        pp.pull.before                              Pull           *)
(*  "pulled"      pp.pull.after                               SetStatus      *)
(*  "vv"          pp.vv.before                                VVSet          *)
(*  "vvmid"       db.vv.between                               VVMin          *)
(*  "vvdone"      pp.vv.after                                 (to save gate) *)
(*  "save"        pp.save.before                              SaveClient     *)
(*  "saved"       pp.save.after                               Respond        *)
(*  "exit"        pp.exit                                     Release        *)
(*  "compact"     (doc W held) packs.Compact as one step      Compact        *)
(*  "done"                                                                   *)
(*                                                                           *)
(* Locks follow Go's sync.RWMutex: a waiting writer blocks new readers.      *)
EXTENDS Integers, Sequences, FiniteSets, TLC, Json, Clocks

CONSTANTS
  Clients,     \* set of client names
  Reqs,        \* set of request ids
  ReqC,        \* [Reqs -> Clients \cup {"-"}]
  ReqK,        \* [Reqs -> {"sync", "detach", "cdetach", "compact"}]
  NLocal,      \* [Clients -> Nat] unsent local changes of each client at the start
  Before(_, _), \* order in which requests of one client are started
  ClusterPullFirst \* TRUE models the cluster DetachDocument handler as it was before the lock-order fix

VARIABLES log, ci, rows, epoch, lk, rq, cst, hist
vars == <<log, ci, rows, epoch, lk, rq, cst, hist>>

NoVV == <<>>
\* client-side state at the start of the phase: every client is attached and
\* synced to serverSeq 0 of a fresh epoch, with NLocal[c] local changes
LocalChanges(c) == [i \in 1..NLocal[c] |-> [cs |-> i, lam |-> i, vv |-> (c :> i)]]
LocalVV(c) == IF NLocal[c] = 0 THEN NoVV ELSE (c :> NLocal[c])

Init ==
  /\ log = <<>>
  /\ ci = [c \in Clients |-> [st |-> "attached", s |-> 0, c |-> 0, epoch |-> 0]]
  /\ rows = [c \in Clients |-> [has |-> TRUE, vv |-> NoVV]]
  /\ epoch = 0
  /\ lk = [docR |-> {}, docW |-> "-", docWW |-> {}, pull |-> [c \in Clients |-> "-"], push |-> "-"]
  /\ rq = [r \in Reqs |-> [pc |-> "new"]]
  \* the replica of each client: checkpoint, unsent changes, clocks, latest request started
  /\ cst = [c \in Clients |-> [cp |-> [s |-> 0, c |-> 0], pend |-> LocalChanges(c), vv |-> LocalVV(c), lam |-> NLocal[c],
                               latest |-> "-", applied |-> {}]]
  /\ hist = <<>>

Step(r) == hist' = Append(hist, r)
Kind(r) == ReqK[r]
Cl(r) == ReqC[r]

\* ---- lock primitives ----------------------------------------------------
CanRLockDoc == lk.docW = "-" /\ lk.docWW = {}
CanWLockDoc == lk.docW = "-" /\ lk.docR = {}

\* the client builds its request pack (CreateChangePack) and the handler starts
Start(r) ==
  /\ rq[r].pc = "new"
  /\ \A r0 \in Reqs : (r0 # r /\ ReqC[r0] = ReqC[r] /\ Before(r0, r)) => rq[r0].pc # "new"   \* requests of one client start in order
  /\ LET c == Cl(r)
         pack == IF c \in Clients
                 THEN [chs |-> cst[c].pend, reqcp |-> [s |-> cst[c].cp.s, c |-> cst[c].cp.c + Len(cst[c].pend)], vv |-> cst[c].vv]
                 ELSE [chs |-> <<>>, reqcp |-> [s |-> 0, c |-> 0], vv |-> NoVV]
     IN IF Kind(r) = "cdetach" /\ ClusterPullFirst
        THEN rq' = [rq EXCEPT ![r] = [pc |-> "w_pull", pack |-> pack]]            \* the order before fix de5cafc4..: pull first
        ELSE rq' = [rq EXCEPT ![r] = [pc |-> "w_doc", pack |-> pack]]
  /\ lk' = IF Kind(r) = "compact" THEN [lk EXCEPT !.docWW = @ \cup {r}] ELSE lk
  /\ cst' = IF Cl(r) \in Clients /\ Kind(r) # "cdetach" THEN [cst EXCEPT ![Cl(r)].latest = r] ELSE cst
  /\ Step(r) /\ UNCHANGED <<log, ci, rows, epoch>>

AcqDoc(r) ==
  /\ rq[r].pc = "w_doc"
  /\ IF Kind(r) = "compact"
     THEN /\ CanWLockDoc
          /\ lk' = [lk EXCEPT !.docW = r, !.docWW = @ \ {r}]
          /\ rq' = [rq EXCEPT ![r].pc = "compact"]
     ELSE /\ CanRLockDoc
          /\ lk' = [lk EXCEPT !.docR = @ \cup {r}]
          /\ rq' = [rq EXCEPT ![r].pc = IF Kind(r) = "cdetach" /\ ClusterPullFirst THEN "enter" ELSE "w_pull"]
  /\ Step(r) /\ UNCHANGED <<log, ci, rows, epoch, cst>>

\* pull lock, then clients.FindActiveClientInfo: the stored client info is read here
AcqPull(r) ==
  /\ rq[r].pc = "w_pull"
  /\ lk.pull[Cl(r)] = "-"
  /\ lk' = [lk EXCEPT !.pull[Cl(r)] = r]
  /\ LET c == Cl(r)
         info == ci[c]
         \* the request pack: sync/detach send the client's local changes; the
         \* cluster detach builds a presence-clear change itself (clientSeq cp.c+1)
         chs == IF Kind(r) = "cdetach" THEN <<[cs |-> info.c + 1, lam |-> 0, vv |-> NoVV]>>
                ELSE rq[r].pack.chs
         reqcp == IF Kind(r) = "cdetach" THEN [s |-> info.s, c |-> info.c] ELSE rq[r].pack.reqcp
     IN rq' = [rq EXCEPT ![r] = [pc |-> IF Kind(r) = "cdetach" /\ ClusterPullFirst THEN "w_doc" ELSE "enter",
                                 info |-> info, chs |-> chs, reqcp |-> reqcp,
                                 vv |-> IF Kind(r) = "cdetach" THEN NoVV ELSE rq[r].pack.vv,
                                 status |-> IF Kind(r) = "sync" THEN "attached" ELSE "detached",
                                 pushonly |-> Kind(r) = "cdetach"]]
  /\ Step(r) /\ UNCHANGED <<log, ci, rows, epoch, cst>>

\* EnsureDocumentAttached + validateClientSeqContinuity; decides whether the push lock is needed
Validate(r) ==
  /\ rq[r].pc = "enter"
  /\ LET q == rq[r]
         attachedOK == q.info.st = "attached"
         push == SelectSeq(q.chs, LAMBDA ch : ch.cs > q.info.c)
     IN rq' = [rq EXCEPT ![r] = IF ~attachedOK
                                 THEN [q EXCEPT !.pc = "exit"] @@ [ok |-> FALSE, pulled |-> <<>>, rescp |-> q.reqcp, min |-> NoVV, hasmin |-> FALSE, init |-> 0]
                                 ELSE [q EXCEPT !.pc = IF push = <<>> THEN "create" ELSE "w_push"] @@ [push |-> push]]
  /\ Step(r) /\ UNCHANGED <<log, ci, rows, epoch, lk, cst>>

AcqPush(r) ==
  /\ rq[r].pc = "w_push" /\ lk.push = "-"
  /\ lk' = [lk EXCEPT !.push = r]
  /\ rq' = [rq EXCEPT ![r].pc = "create"]
  /\ Step(r) /\ UNCHANGED <<log, ci, rows, epoch, cst>>

\* DB.CreateChangeInfos: one transaction (stale epochs discarded in pushPack)
Create(r) ==
  /\ rq[r].pc = "create"
  /\ LET q == rq[r]
         c == Cl(r)
         stale == q.info.epoch # epoch
         push == IF stale THEN <<>> ELSE q.push
         newrows == [i \in DOMAIN push |-> [actor |-> c, cs |-> push[i].cs, lam |-> push[i].lam, vv |-> push[i].vv, by |-> r]]
     IN /\ log' = log \o newrows
        /\ rq' = [rq EXCEPT ![r] = [q EXCEPT !.pc = "created"] @@
                                   [init |-> Len(log), head |-> Len(log) + Len(push), stale |-> stale,
                                    cpc |-> IF push = <<>> THEN q.info.c ELSE push[Len(push)].cs]]
  /\ Step(r) /\ UNCHANGED <<ci, rows, epoch, lk, cst>>

RelPush(r) ==
  /\ rq[r].pc = "created"
  /\ lk' = IF lk.push = r THEN [lk EXCEPT !.push = "-"] ELSE lk
  /\ rq' = [rq EXCEPT ![r].pc = "pull"]
  /\ Step(r) /\ UNCHANGED <<log, ci, rows, epoch, cst>>

\* preparePack + pullChangeInfos: the range (req.cp.s, init] minus own changes
Pull(r) ==
  /\ rq[r].pc = "pull"
  /\ LET q == rq[r]
         c == Cl(r)
         refused == q.stale /\ q.status = "attached" /\ ~q.pushonly
         idx == {i \in (q.reqcp.s + 1)..q.init : ~(log[i].actor = c /\ q.cpc >= log[i].cs)}
         pulled == IF q.pushonly \/ q.stale THEN <<>>
                   ELSE [i \in 1..Cardinality(idx) |-> CHOOSE j \in idx : Cardinality({x \in idx : x < j}) = i - 1]
         rescp == IF q.pushonly \/ q.stale THEN [s |-> q.reqcp.s, c |-> q.cpc] ELSE [s |-> q.head, c |-> q.cpc]
     IN rq' = [rq EXCEPT ![r] = [q EXCEPT !.pc = IF refused THEN "exit" ELSE "pulled"] @@
                                [ok |-> ~refused, pulled |-> pulled, rescp |-> rescp, min |-> NoVV, hasmin |-> FALSE]]
  /\ Step(r) /\ UNCHANGED <<log, ci, rows, epoch, lk, cst>>

\* clientInfo.UpdateDocStatus (in memory)
SetStatus(r) ==
  /\ rq[r].pc = "pulled"
  /\ LET q == rq[r]
         info2 == IF q.status = "attached" THEN [q.info EXCEPT !.s = q.rescp.s, !.c = q.rescp.c]
                  ELSE [q.info EXCEPT !.st = "detached", !.s = 0, !.c = 0]
     IN rq' = [rq EXCEPT ![r] = [q EXCEPT !.pc = "vv", !.info = info2]]
  /\ Step(r) /\ UNCHANGED <<log, ci, rows, epoch, lk, cst>>

\* DB.updateVersionVector: the request-time vector is stored (row deleted when not attached)
VVSet(r) ==
  /\ rq[r].pc = "vv"
  /\ rows' = [rows EXCEPT ![Cl(r)] = IF rq[r].info.st = "attached" THEN [has |-> TRUE, vv |-> rq[r].vv] ELSE [has |-> FALSE, vv |-> NoVV]]
  /\ rq' = [rq EXCEPT ![r].pc = "vvmid"]
  /\ Step(r) /\ UNCHANGED <<log, ci, epoch, lk, cst>>

\* DB.GetMinVersionVector: a second transaction
VVMin(r) ==
  /\ rq[r].pc = "vvmid"
  /\ LET q == rq[r]
         m == MinVV({q.vv} \cup {rows[x].vv : x \in {y \in Clients : rows[y].has}})
     IN rq' = [rq EXCEPT ![r] = [q EXCEPT !.pc = "vvdone", !.min = m, !.hasmin = ~q.pushonly]]
  /\ Step(r) /\ UNCHANGED <<log, ci, rows, epoch, lk, cst>>

ToSave(r) ==
  /\ rq[r].pc = "vvdone"
  /\ rq' = [rq EXCEPT ![r].pc = "save"]
  /\ Step(r) /\ UNCHANGED <<log, ci, rows, epoch, lk, cst>>

\* DB.UpdateClientInfoAfterPushPull: max-merge of the checkpoint with the stored row
SaveClient(r) ==
  /\ rq[r].pc = "save"
  /\ LET q == rq[r] c == Cl(r) IN
     ci' = [ci EXCEPT ![c] = IF q.info.st = "attached"
                             THEN [@ EXCEPT !.s = Max2(@, q.info.s), !.c = Max2(@, q.info.c)]
                             ELSE [@ EXCEPT !.st = q.info.st, !.s = 0, !.c = 0]]
  /\ rq' = [rq EXCEPT ![r].pc = "saved"]
  /\ Step(r) /\ UNCHANGED <<log, rows, epoch, lk, cst>>

Respond(r) ==
  /\ rq[r].pc = "saved"
  /\ rq' = [rq EXCEPT ![r].pc = "exit"]
  /\ Step(r) /\ UNCHANGED <<log, ci, rows, epoch, lk, cst>>

\* handler returns: deferred unlocks
Release(r) ==
  /\ rq[r].pc = "exit"
  /\ lk' = [lk EXCEPT !.docR = @ \ {r}, !.pull = [c \in Clients |-> IF @[c] = r THEN "-" ELSE @[c]],
                      !.push = IF @ = r THEN "-" ELSE @]
  /\ rq' = [rq EXCEPT ![r].pc = IF Kind(r) = "sync" THEN "resp" ELSE "done"]
  /\ Step(r) /\ UNCHANGED <<log, ci, rows, epoch, cst>>

\* the client applies the response (document.ApplyChangePack) - unless the
\* request was superseded by a later one of the same client (a retry), whose
\* response is the one that gets applied
RECURSIVE ApplyRows(_, _, _, _)
ApplyRows(c, st, lg, idxs) ==
  IF idxs = <<>> THEN st
  ELSE LET row == lg[Head(idxs)]
           n == IF row.lam = 0 THEN [lam |-> st.lam, vv |-> st.vv] ELSE SyncClocks(c, st.lam, st.vv, row.lam, row.vv)
       IN ApplyRows(c, [st EXCEPT !.lam = n.lam, !.vv = n.vv, !.applied = @ \cup {Head(idxs)}], lg, Tail(idxs))
Apply(r) ==
  /\ rq[r].pc = "resp"
  /\ LET c == Cl(r) q == rq[r] IN
     cst' = IF cst[c].latest # r \/ ~q.ok THEN cst
            ELSE LET st1 == ApplyRows(c, cst[c], log, q.pulled)
                 IN [cst EXCEPT ![c] = [st1 EXCEPT !.pend = SelectSeq(@, LAMBDA ch : ch.cs > q.rescp.c),
                                                   !.cp = [s |-> Max2(@.s, q.rescp.s), c |-> Max2(@.c, q.rescp.c)]]]
  /\ rq' = [rq EXCEPT ![r].pc = "done"]
  /\ Step(r) /\ UNCHANGED <<log, ci, rows, epoch, lk>>

\* packs.Compact(force) under the exclusive doc lock
Compact(r) ==
  /\ rq[r].pc = "compact"
  /\ epoch' = epoch + 1
  /\ log' = IF log = <<>> THEN <<>> ELSE <<[actor |-> "init", cs |-> 1, lam |-> 1, vv |-> ("init" :> 1), by |-> r]>>
  /\ rows' = [c \in Clients |-> [has |-> FALSE, vv |-> NoVV]]
  /\ lk' = [lk EXCEPT !.docW = "-"]
  /\ rq' = [rq EXCEPT ![r].pc = "done"]
  /\ Step(r) /\ UNCHANGED <<ci, cst>>

Next == \E r \in Reqs :
  \/ Start(r) \/ AcqDoc(r) \/ AcqPull(r) \/ Validate(r) \/ AcqPush(r) \/ Create(r) \/ RelPush(r) \/ Pull(r)
  \/ SetStatus(r) \/ VVSet(r) \/ VVMin(r) \/ ToSave(r) \/ SaveClient(r) \/ Respond(r) \/ Release(r) \/ Apply(r) \/ Compact(r)

Spec == Init /\ [][Next]_vars

----------------------------------------------------------------------------
AllDone == \A r \in Reqs : rq[r].pc = "done"

\* C04: a replica never misses a row of another actor below its checkpoint, and
\* never applies one twice (applied is a set of log indexes; ApplyRows adds)
NoGapBelowCheckpoint ==
  \A c \in Clients : \A i \in 1..Len(log) :
     (i <= cst[c].cp.s /\ log[i].actor # c /\ epoch = 0) => i \in cst[c].applied

\* C16: no request is ever stuck: from every reachable state that is not final some step is enabled
NoDeadlock == AllDone \/ ENABLED Next

\* C04: no (actor, clientSeq) twice in one epoch's log; per actor 1..k in order
NoDuplicateRow == \A i, j \in 1..Len(log) : (i < j /\ log[i].actor = log[j].actor) => log[i].cs # log[j].cs
PerActorDense ==
  \A i \in 1..Len(log) : log[i].actor = "init" \/
     log[i].cs = Cardinality({j \in 1..i : log[j].actor = log[i].actor})

\* C16: Create only under the push lock when something is stored
CreateUnderPushLock == \A r \in Reqs : (rq[r].pc = "create" /\ rq[r].push # <<>>) => lk.push = r

\* C16: documented lock order doc < pull < push at every acquisition
LockOrder ==
  \A r \in Reqs :
     /\ (rq[r].pc = "w_doc" => lk.pull[IF Cl(r) \in Clients THEN Cl(r) ELSE CHOOSE c \in Clients : TRUE] # r)
     /\ (rq[r].pc = "w_pull" => lk.push # r)

\* C03 (schedule dependent): a minimum vector handed out together with a pull
\* range ending at `init` presumes that every row stored later was written by
\* an author that had seen everything the vector covers
GCSafe ==
  \A r \in Reqs :
    (rq[r].pc \in {"vvdone", "save", "saved", "exit", "done"} /\ "hasmin" \in DOMAIN rq[r] /\ rq[r].hasmin /\ Kind(r) = "sync")
      => \A i \in 1..Len(log) : (i > rq[r].init /\ log[i].actor # Cl(r) /\ "stale" \in DOMAIN rq[r] /\ ~rq[r].stale /\ log[i].actor # "init")
                                   => VVLeq(rq[r].min, log[i].vv)

View == <<log, ci, rows, epoch, lk, rq, cst>>
Emit == AllDone => PrintT(<<"BEHAVIOUR", ToJson(hist)>>)
=============================================================================
