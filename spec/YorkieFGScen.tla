---------------------------- MODULE YorkieFGScen ----------------------------
(* Scenarios (sets of concurrent requests) for YorkieFG.tla. *)
EXTENDS YorkieFG

\* A: a retry overlapping the original request of the same client + a peer
ReqsA == {"r1", "r2", "r3"}
ReqCA == [r \in ReqsA |-> IF r = "r3" THEN "c2" ELSE "c1"]
ReqKA == [r \in ReqsA |-> "sync"]
NLocalA == [c \in {"c1", "c2"} |-> 1]

\* B: two syncs each of two clients (the minimum vector vs pull range race)
ReqsB == {"r1", "r2", "r3", "r4"}
ReqCB == [r \in ReqsB |-> IF r \in {"r1", "r2"} THEN "c1" ELSE "c2"]
ReqKB == [r \in ReqsB |-> "sync"]
NLocalB == [c \in {"c1", "c2"} |-> 1]

\* C: sync || cluster detach (Deactivate) of the same client || forced compaction
ReqsC == {"r1", "r2", "r3"}
ReqCC == [r \in ReqsC |-> IF r = "r3" THEN "-" ELSE "c1"]
ReqKC == [r \in ReqsC |-> CASE r = "r1" -> "sync" [] r = "r2" -> "cdetach" [] OTHER -> "compact"]
NLocalC == [c \in {"c1", "c2"} |-> 1]

\* D: sync || detach of a peer || compaction
ReqsD == {"r1", "r2", "r3"}
ReqCD == [r \in ReqsD |-> CASE r = "r1" -> "c1" [] r = "r2" -> "c2" [] OTHER -> "-"]
ReqKD == [r \in ReqsD |-> CASE r = "r1" -> "sync" [] r = "r2" -> "detach" [] OTHER -> "compact"]

Lt(a, b) == \* lexicographic order of the request names r1 < r2 < ...
  CHOOSE x \in BOOLEAN : x = (\E i \in 1..9 : a = ("r" \o ToString(i)) /\ \E j \in (i + 1)..9 : b = ("r" \o ToString(j)))
=============================================================================
