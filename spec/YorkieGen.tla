----------------------------- MODULE YorkieGen -----------------------------
(* Generation instances of Yorkie.tla: operation alphabets (selectors are    *)
(* resolved by the harness against the replica's actual visible state).      *)
EXTENDS Yorkie

Seq2 == <<"c1", "c2">>
Seq3 == <<"c1", "c2", "c3">>
Seq4 == <<"c1", "c2", "c3", "c4">>
Seq5 == <<"c1", "c2", "c3", "c4", "c5">>

O(k, a, b, v) == [k |-> k, a |-> a, b |-> b, v |-> v]

OpsArr ==
  {O("arr.add", 0, 0, 1)} \cup
  {O("arr.ins", a, 0, 2) : a \in 0..2} \cup
  {O("arr.del", a, 0, 0) : a \in 0..2} \cup
  {O("arr.mov", a, b, 0) : a \in 0..2, b \in 0..2} \cup
  {O("arr.movfront", 0, b, 0) : b \in 1..2} \cup
  {O("arr.movlast", 0, b, 0) : b \in 0..1} \cup
  {O("arr.set", a, 0, 3) : a \in 0..2}

OpsArrNoMove ==
  {O("arr.add", 0, 0, 1)} \cup
  {O("arr.ins", a, 0, 2) : a \in 0..2} \cup
  {O("arr.del", a, 0, 0) : a \in 0..2}

OpsObj ==
  {O("obj.set", a, 0, 1) : a \in 0..1} \cup
  {O("obj.del", a, 0, 0) : a \in 0..1} \cup
  {O("obj.setobj", a, 0, v) : a \in 0..1, v \in {1, 2}} \cup
  {O("obj.setin", a, 0, v) : a \in 0..1, v \in {0, 1}} \cup
  {O("obj.sets", a, 0, 1) : a \in 0..1}      \* a string value (it carries a closing parenthesis: YSON export/import)

\* nested containers: replace / delete a container while a peer edits inside it
OpsNest ==
  {O("obj.setobj", a, 0, v) : a \in 0..1, v \in 0..3} \cup
  {O("obj.setin", a, 0, v) : a \in 0..1, v \in 0..1} \cup
  {O("obj.del", a, 0, 0) : a \in 0..1} \cup
  {O("obj.set", a, 0, 1) : a \in 0..1} \cup
  {O("obj.sets", a, 0, 1) : a \in 0..1}

OpsTxt ==
  {O("txt.edit", a, b, v) : a \in {0, 1, 3}, b \in {0, 1, 2}, v \in {0, 2}} \cup
  {O("txt.edit", a, 0, 3) : a \in {1, 2}} \cup
  {O("txt.style", a, b, a) : a \in {0, 2}, b \in {0, 1}}

OpsTxtNoStyle ==
  {O("txt.edit", a, b, v) : a \in {0, 1, 3}, b \in {0, 1, 2}, v \in {0, 2}} \cup
  {O("txt.edit", a, 0, 3) : a \in {1, 2}}
OpsTreeTextNoStyle ==
  {O("tree.edit", a, b, v) : a \in 0..1, b \in 0..2, v \in {0, 1, 4}} \cup {O("tree.edit", a, 0, 2) : a \in 0..2}
OpsTreeElemNoStyle == {O("tree.edit", a, 0, v) : a \in 0..2, v \in {2, 3}}
\* kinds whose undo is only approximate (C14: never fail, never corrupt)
OpsApprox ==
  {O("txt.style", a, b, a) : a \in {0, 2}, b \in {0, 1}} \cup {O("txt.edit", 1, 1, 2)} \cup
  {O("arr.mov", a, b, 0) : a \in 0..2, b \in 0..2} \cup {O("arr.set", a, 0, 3) : a \in 0..2} \cup {O("arr.add", 0, 0, 1)} \cup
  {O("tree.style", a, 0, v) : a \in 0..1, v \in 0..1} \cup {O("tree.rmstyle", a, 0, 0) : a \in 0..1}

OpsCnt == {O("cnt.inc", 0, 0, v) : v \in {1, 2}}
\* with wrap-around: +MaxInt32, -MaxInt32, -3
OpsCntWrap == {O("cnt.inc", 0, 0, v) : v \in {1, 100, 101, 102}}

OpsTree ==
  {O("tree.edit", a, b, v) : a \in 0..1, b \in 0..2, v \in {0, 1, 4}} \cup
  {O("tree.edit", a, 0, v) : a \in 0..2, v \in {2, 3}} \cup
  {O("tree.style", a, 0, v) : a \in 0..1, v \in 0..1} \cup
  {O("tree.rmstyle", a, 0, 0) : a \in 0..1}

\* KF-TREE-INSERT-INTO-REMOVED-PARENT guard: histories with several edits per
\* client use one of these two halves of OpsTree
OpsTreeText ==
  {O("tree.edit", a, b, v) : a \in 0..1, b \in 0..2, v \in {0, 1, 4}} \cup
  {O("tree.edit", a, 0, 2) : a \in 0..2} \cup
  {O("tree.style", a, 0, v) : a \in 0..1, v \in 0..1} \cup
  {O("tree.rmstyle", a, 0, 0) : a \in 0..1}
OpsTreeElem ==
  {O("tree.edit", a, 0, v) : a \in 0..2, v \in {2, 3}} \cup
  {O("tree.style", a, 0, v) : a \in 0..1, v \in 0..1} \cup
  {O("tree.rmstyle", a, 0, 0) : a \in 0..1}

OpsPres == {O("pres.set", a, 0, v) : a \in 0..1, v \in 1..2}

OpsOne == {O("cnt.inc", 0, 0, 1)}
OpsPresMix == OpsPres \cup OpsCnt

\* a mixed alphabet for simulation
OpsMix == OpsArr \cup OpsObj \cup OpsTxt \cup OpsCnt \cup OpsTreeText
\* a dedup counter: its state is the HyperLogLog registers, not the number it shows
OpsDedup == {O("dup.add", 0, 0, v) : v \in 0..4}
OpsMix2 == OpsArr \cup OpsNest \cup OpsTxt \cup OpsCnt \cup OpsTreeElem
OpsGC == {O("arr.add", 0, 0, 1), O("arr.ins", 0, 0, 2), O("arr.ins", 2, 0, 2), O("arr.del", 0, 0, 0), O("arr.del", 2, 0, 0),
          O("arr.mov", 0, 2, 0), O("arr.mov", 2, 0, 0), O("arr.set", 1, 0, 3),
          O("obj.set", 0, 0, 1), O("obj.del", 0, 0, 0), O("obj.setobj", 0, 0, 2),
          O("txt.edit", 1, 1, 0), O("txt.edit", 1, 0, 2), O("txt.edit", 0, 2, 2), O("txt.style", 0, 1, 1),
          O("tree.edit", 0, 1, 1), O("tree.edit", 0, 0, 2), O("tree.edit", 1, 1, 0), O("tree.rmstyle", 0, 0, 0), O("tree.style", 0, 0, 1)}
=============================================================================
