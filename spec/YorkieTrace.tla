---------------------------- MODULE YorkieTrace ----------------------------
(* Trace specification for sequential executions of the real Yorkie stack.   *)
(*                                                                           *)
(* Input: an ndjson trace recorded by harness/cmd/yvh (one event per line,   *)
(* several behaviours concatenated, each starting with an "Init" event).     *)
(* Every event is one action of the system specification (Yorkie.tla):       *)
(*   PP        one server-side PushPull (packs.PushPull: Create, Prepare,    *)
(*             PullChanges|PullSnapshot, SetStatus, VVSet, VVMin, SaveClient,*)
(*             Respond) with request, appended log rows and response         *)
(*   Attach/Sync/Detach/Remove   the client's ApplyResponse                  *)
(*   Edit/Undo/Redo              a local update on a replica                 *)
(*   Ref       the same-run, change-fed, never-collected reference replica   *)
(*             advances by one log row                                       *)
(*   Build     packs.BuildInternalDocForServerSeq observation                *)
(*   Compact / Deactivate / Activate / Evict                                 *)
(*                                                                           *)
(* The step function adopts the logged observables (P2 of DESIGN.md) and     *)
(* derives the ghost state the properties talk about (which log rows each    *)
(* replica has applied, who is attached, what each client last acknowledged) *)
(* from the logged arguments. After every event TLC evaluates every          *)
(* invariant below on the resulting state; failures are collected in `viol`  *)
(* (tag, behaviour id, line) so that one bad behaviour in a concatenation    *)
(* does not hide the others. YorkieTraceOne.cfg checks NoViolation as a      *)
(* plain INVARIANT for single-trace replay.                                  *)
EXTENDS Integers, Sequences, FiniteSets, TLC, Json, IOUtils, Clocks

Trace == ndJsonDeserialize(IOEnv.YTRACE)

VARIABLES l, st, viol
vars == <<l, st, viol>>

----------------------------------------------------------------------------
Upd(f, k, v) == [x \in (DOMAIN f) \cup {k} |-> IF x = k THEN v ELSE f[x]]
Range(s) == {s[i] : i \in DOMAIN s}
Has(a, f) == f \in DOMAIN a
HasClk(r) == r.lam # 0 /\ DOMAIN r.vv # {}
Cp(x) == [s |-> x[1], c |-> x[2]]

NoRep == [has |-> FALSE]

EmptySt ==
  [tid |-> "", family |-> "", clients |-> {}, docs |-> {}, threshold |-> 0, interval |-> 0,
   log |-> <<>>, epoch |-> <<>>, removed |-> <<>>, nopres |-> <<>>, ref |-> <<>>, pre |-> <<>>,
   rep |-> <<>>, resp |-> <<>>, att |-> <<>>, gcoff |-> <<>>, active |-> <<>>, lastReq |-> <<>>,
   lastResCp |-> <<>>, hist |-> <<>>, row |-> <<>>, held |-> <<>>, rev |-> <<>>, restoreAt |-> <<>>]

InitSt(e) ==
  LET cs == Range(e.clients)
      ds == Range(e.docs)
      K  == cs \X ds
  IN [tid |-> e.id, family |-> e.family, clients |-> cs, docs |-> ds,
      threshold |-> e.threshold, interval |-> e.interval,
      log     |-> [d \in ds |-> <<>>],       \* the change log of the current epoch (tblChanges)
      epoch   |-> [d \in ds |-> 0],          \* DocInfo.Epoch
      removed |-> [d \in ds |-> FALSE],      \* DocInfo.RemovedAt set
      nopres  |-> [d \in ds |-> FALSE],      \* DocInfo.DisablePresence
      ref     |-> [d \in ds |-> <<>>],       \* ref[d][s]: reference replica after row s
      pre     |-> [d \in ds |-> [has |-> FALSE, content |-> ""]],  \* content before a compaction
      rep     |-> [k \in K |-> NoRep],       \* replicas (document instances)
      resp    |-> [k \in K |-> <<>>],        \* responses in flight
      att     |-> [k \in K |-> "none"],      \* server-side attachment state (ClientDocInfo.Status)
      gcoff   |-> [k \in K |-> FALSE],       \* attachment opted out of GC
      active  |-> [c \in cs |-> TRUE],
      lastReq |-> [k \in K |-> <<>>],        \* version vector of the client's last request
      row     |-> [k \in K |-> [has |-> FALSE, vv |-> <<>>]],  \* ghost of tblVersionVectors: vector of the last
                                             \* successful request of an attached participating client
      lastResCp |-> [k \in K |-> <<0, 0>>],  \* checkpoint of the last response of the session
      hist    |-> [k \in K |-> [past |-> <<>>, future |-> <<>>]],
      held    |-> <<>>,                      \* locks held per handler goroutine (concurrent traces)
      rev     |-> [d \in ds |-> 0],          \* log head at which the revision was taken (0: none)
      restoreAt |-> [d \in ds |-> 0]]        \* the log row a restore appended (0: none)

----------------------------------------------------------------------------
(* Derived notions *)

RowIds(s, d, n) == {s.log[d][i].id : i \in 1..n}
\* rows of the current log that replica k has applied
AppliedRows(s, k) == {i \in 1..Len(s.log[k[2]]) : s.log[k[2]][i].id \in s.rep[k].applied}
Synced(s, k) == s.rep[k].has /\ s.rep[k].pend = <<>> /\ s.rep[k].epoch = s.epoch[k[2]]
IsPrefix(S) == S = 1..Cardinality(S)

----------------------------------------------------------------------------
(* State invariants (evaluated after every event) *)

\* rows that carry operations (presence-only rows do not touch the content)
ContentRows(s, d) == {i \in 1..Len(s.log[d]) : s.log[d][i].nops > 0}
AppliedContent(s, k) == {i \in ContentRows(s, k[2]) : s.log[k[2]][i].id \in s.rep[k].applied}

\* C01/C02/C03/C15/C19: replicas that applied the same operation-carrying log
\* rows and hold no unsent change show identical content.
Converged(s) ==
  \A k1, k2 \in DOMAIN s.rep :
    (k1[2] = k2[2] /\ k1 # k2 /\ Synced(s, k1) /\ Synced(s, k2)
       /\ s.rep[k1].st # "removed" /\ s.rep[k2].st # "removed"
       /\ AppliedContent(s, k1) = AppliedContent(s, k2))
      => s.rep[k1].content = s.rep[k2].content

\* C02/C03/C09: a replica that has applied exactly the operation-carrying rows
\* of the log prefix 1..n (n = its checkpoint) shows what the change-fed,
\* never-garbage-collected reference shows at n - however it got there
\* (snapshot, change pulls, with or without GC).
RefEquiv(s) ==
  \A k \in DOMAIN s.rep :
    (Synced(s, k) /\ s.rep[k].st # "removed")
      => LET n == s.rep[k].cp.s d == k[2]
         IN (n >= 1 /\ n <= Len(s.ref[d]) /\ AppliedContent(s, k) = {i \in ContentRows(s, d) : i <= n})
               => s.rep[k].content = s.ref[d][n].content

\* C14/C15 compare text and tree "as character/XML content, not as internal chunking": the same
\* two invariants on the normalised content (text as its string, tree as XML). An undo that
\* re-creates purged characters legitimately yields other chunk boundaries than the replica
\* that kept the original nodes.
ConvergedN(s) ==
  \A k1, k2 \in DOMAIN s.rep :
    (k1[2] = k2[2] /\ k1 # k2 /\ Synced(s, k1) /\ Synced(s, k2)
       /\ s.rep[k1].st # "removed" /\ s.rep[k2].st # "removed"
       /\ AppliedContent(s, k1) = AppliedContent(s, k2))
      => s.rep[k1].ncontent = s.rep[k2].ncontent
RefEquivN(s) ==
  \A k \in DOMAIN s.rep :
    (Synced(s, k) /\ s.rep[k].st # "removed")
      => LET n == s.rep[k].cp.s d == k[2]
         IN (n >= 1 /\ n <= Len(s.ref[d]) /\ AppliedContent(s, k) = {i \in ContentRows(s, d) : i <= n})
               => s.rep[k].ncontent = s.ref[d][n].ncontent

\* C12: same for presence, for attached replicas.
PresenceConverged(s) ==
  \A k \in DOMAIN s.rep :
    (Synced(s, k) /\ s.rep[k].st = "attached" /\ IsPrefix(AppliedRows(s, k)))
      => LET n == Cardinality(AppliedRows(s, k)) d == k[2]
         IN (n >= 1 /\ n <= Len(s.ref[d])) => s.rep[k].pres = s.ref[d][n].pres

\* C08: the copy handed to user callbacks equals the authoritative document.
CloneEqRoot(s) ==
  \A k \in DOMAIN s.rep : (s.rep[k].has /\ s.rep[k].st # "removed") => s.rep[k].root = s.rep[k].content

\* C04/C05: each (actor, session, clientSeq) at most once in the log.
NoDuplicateRow(s) ==
  \A d \in s.docs : \A i, j \in 1..Len(s.log[d]) : i < j => s.log[d][i].id # s.log[d][j].id

\* C04: per session the clientSeqs in log order increase
PerSessionOrdered(s) ==
  \A d \in s.docs : \A i, j \in 1..Len(s.log[d]) :
    (i < j /\ s.log[d][i].id[1] = s.log[d][j].id[1] /\ s.log[d][i].id[2] = s.log[d][j].id[2])
      => s.log[d][i].cs < s.log[d][j].cs

\* C04: no gap below a replica's checkpoint: every row of ANOTHER actor at or
\* below it has been delivered (own rows are never echoed - also not to a later
\* session of the same client, which the property does not demand; whether
\* that matters for content is decided by Converged / RefEquiv)
NoGapBelowCheckpoint(s) ==
  \A k \in DOMAIN s.rep :
    (s.rep[k].has /\ s.rep[k].epoch = s.epoch[k[2]] /\ s.rep[k].st # "removed")
      => \A i \in 1..Len(s.log[k[2]]) :
            (i <= s.rep[k].cp.s /\ s.log[k[2]][i].actor # k[1]) => s.log[k[2]][i].id \in s.rep[k].applied

\* C04: checkpoints never exceed the head
CheckpointBound(s) ==
  \A k \in DOMAIN s.rep :
    (s.rep[k].has /\ s.rep[k].epoch = s.epoch[k[2]]) => s.rep[k].cp.s <= Len(s.log[k[2]])

\* C06: own entry, unique tickets
OwnEntry(s) ==
  \A d \in s.docs : \A i \in 1..Len(s.log[d]) :
    LET r == s.log[d][i] IN HasClk(r) => VVGet(r.vv, r.actor) = r.lam
UniqueTicket(s) ==
  \A d \in s.docs : \A i, j \in 1..Len(s.log[d]) :
    (i < j /\ HasClk(s.log[d][i]) /\ HasClk(s.log[d][j]))
      => <<s.log[d][i].lam, s.log[d][i].actor>> # <<s.log[d][j].lam, s.log[d][j].actor>>
AuthorMonotone(s) ==
  \A d \in s.docs : \A i, j \in 1..Len(s.log[d]) :
    (i < j /\ HasClk(s.log[d][i]) /\ HasClk(s.log[d][j]) /\ s.log[d][i].actor = s.log[d][j].actor)
      => s.log[d][i].lam < s.log[d][j].lam

\* C12: on a presenceless document nothing about presence is stored
NoPresenceRows(s) ==
  \A d \in s.docs : s.nopres[d] => \A i \in 1..Len(s.log[d]) : s.log[d][i].pres = "none"

FailedState(s) ==
  (IF Converged(s) THEN {} ELSE {"Converged"}) \cup
  (IF RefEquiv(s) THEN {} ELSE {"RefEquiv"}) \cup
  (IF ConvergedN(s) THEN {} ELSE {"ConvergedN"}) \cup
  (IF RefEquivN(s) THEN {} ELSE {"RefEquivN"}) \cup
  (IF PresenceConverged(s) THEN {} ELSE {"PresenceConverged"}) \cup
  (IF CloneEqRoot(s) THEN {} ELSE {"CloneEqRoot"}) \cup
  (IF NoDuplicateRow(s) THEN {} ELSE {"NoDuplicateRow"}) \cup
  (IF PerSessionOrdered(s) THEN {} ELSE {"PerSessionOrdered"}) \cup
  (IF NoGapBelowCheckpoint(s) THEN {} ELSE {"NoGapBelowCheckpoint"}) \cup
  (IF CheckpointBound(s) THEN {} ELSE {"CheckpointBound"}) \cup
  (IF OwnEntry(s) THEN {} ELSE {"OwnEntry"}) \cup
  (IF UniqueTicket(s) THEN {} ELSE {"UniqueTicket"}) \cup
  (IF AuthorMonotone(s) THEN {} ELSE {"AuthorMonotone"}) \cup
  (IF NoPresenceRows(s) THEN {} ELSE {"NoPresenceRows"})

----------------------------------------------------------------------------
(* Step function: [st |-> new state, v |-> set of violated action-level checks] *)

R(s, v) == [st |-> s, v |-> v]
Chk(cond, tag) == IF cond THEN {} ELSE {tag}

\* ---- PP: one server-side PushPull --------------------------------------
\* Pushables of the spec (pushPack step 01 + stripPresenceChanges)
Pushables(e) ==
  SelectSeq(e.req.chs, LAMBDA ch : ch.cs > e.ci.c /\ ~(e.nopres /\ ch.nops = 0 /\ ch.pres # "none"))

\* packs.PushPull is three linearization points: the log append (Create, under the
\* push lock), the version-vector row write (VVSet) and the response. Sequential
\* drivers log them as one PP event; concurrent runs (gates, stress) log them as
\* separate PPC / VV / PPR events taken from the hooks at those points.
Stale(e) == e.created /\ e.ci.st # "none" /\ e.ci.epoch # e.epoch

\* -- Create: rows appended
PPCStep(s, e) ==
  LET d == e.d
      k == <<e.c, d>>
      known == k \in DOMAIN s.rep
      old == s.log[d]
      stale == Stale(e)
      mkrow(r) == [id |-> <<r.actor, e.sess, r.cs>>, s |-> r.s, actor |-> r.actor, cs |-> r.cs,
                   lam |-> r.lam, vv |-> r.vv, nops |-> r.nops, pres |-> r.pres, stripped |-> FALSE]
      newrows == [i \in DOMAIN e.rows |-> mkrow(e.rows[i])]
      \* pushPack: changes of a stale epoch and changes pushed to a removed document are discarded
      exp == IF e.created /\ ~stale /\ ~s.removed[d] THEN Pushables(e) ELSE <<>>
      \* -- C04 / C05 / C10 / C11 checks on what was stored
      vStore ==
        Chk(\A i \in DOMAIN newrows : newrows[i].s = Len(old) + i, "LogDense") \cup
        Chk(\A i \in DOMAIN newrows : newrows[i].actor = e.c, "RowsOfRequester") \cup
        Chk(Len(newrows) = Len(exp) /\ \A i \in DOMAIN newrows : newrows[i].cs = exp[i].cs /\ newrows[i].lam = exp[i].lam,
            "PushedExactlyOnce") \cup
        Chk(stale => newrows = <<>>, "StaleAddsNoRows") \cup
        Chk((s.removed[d] /\ ~e.req.removed) => newrows = <<>>, "RemovedStoresNothing") \cup
        Chk((newrows # <<>> /\ known) => s.active[e.c], "WriteOnlyWhenActive") \cup
        Chk((newrows # <<>> /\ known) => (e.rpc = "attach" \/ s.att[k] = "attached"), "WriteOnlyWhenAttached") \cup
        Chk(e.created => e.seq = Len(old) + Len(newrows), "HeadMatchesLog")
      s2 == [s EXCEPT !.log = Upd(@, d, old \o newrows),
                      !.removed = Upd(@, d, @[d] \/ (e.created /\ e.docremoved)),
                      !.nopres = Upd(@, d, @[d] \/ (e.created /\ e.nopresdoc)),
                      !.lastReq = IF known THEN Upd(@, k, e.req.vv) ELSE @]
  IN R(s2, vStore)

\* -- VVSet: DB.updateVersionVector wrote (or deleted) the client's row
VVStep(s, e) ==
  LET k == <<e.c, e.d>>
      known == k \in DOMAIN s.rep
  IN R([s EXCEPT !.row = IF known /\ e.vvset
                         THEN Upd(@, k, IF e.status = "attached" THEN [has |-> TRUE, vv |-> e.req.vv] ELSE [has |-> FALSE, vv |-> <<>>])
                         ELSE @], {})

\* -- Respond
PPRStep(s, e) ==
  LET d == e.d
      k == <<e.c, d>>
      known == k \in DOMAIN s.rep
      stale == Stale(e)
      log2 == s.log[d]
      \* -- response checks (C04 delivery, C06 minimum vector, C10 stale, C12 presence)
      res == e.res
      pulledOK ==
        \A i \in DOMAIN res.pulled :
          LET p == res.pulled[i] IN
            /\ p.s >= 1 /\ p.s <= Len(log2)
            /\ log2[p.s].actor = p.actor /\ log2[p.s].cs = p.cs /\ log2[p.s].lam = p.lam
      pulledInc == \A i, j \in DOMAIN res.pulled : i < j => res.pulled[i].s < res.pulled[j].s
      noEcho == \A i \in DOMAIN res.pulled :
                  LET p == res.pulled[i] IN (p.s >= 1 /\ p.s <= Len(log2)) => log2[p.s].id # <<e.c, e.sess, p.cs>>
      others == {x \in DOMAIN s.row : x[2] = d /\ x # k /\ s.row[x].has}
      \* C06: never above what an attached participating client acknowledged
      minSound ==
        (e.ok /\ e.hasmin /\ res.hasvv /\ ~res.snap) =>
          /\ VVLeq(res.vv, e.req.vv)
          /\ (~e.concurrent => \A x \in others : VVLeq(res.vv, s.row[x].vv))
      \* C11: never below the minimum over the clients that are still attached -
      \* a client that detached or was deactivated no longer holds GC back
      minNotHeldBack ==
        (e.ok /\ e.hasmin /\ res.hasvv /\ ~res.snap /\ known /\ e.status = "attached" /\ ~e.concurrent) =>
          VVLeq(MinVV({e.req.vv} \cup {s.row[x].vv : x \in others}), res.vv)
      \* C03 (schedule dependent): the vector handed out with a pull range ending at
      \* e.init presumes that whoever wrote a later row had seen everything it covers
      gcSafe ==
        (e.ok /\ e.hasmin /\ res.hasvv /\ ~res.snap /\ e.init >= 0) =>
          \A i \in 1..Len(log2) : (i > e.init /\ log2[i].actor # e.c /\ HasClk(log2[i])) => VVLeq(res.vv, log2[i].vv)
      vRes ==
        IF ~e.ok THEN {}
        ELSE Chk(pulledOK, "PulledMatchesLog") \cup Chk(pulledInc, "PulledInOrder") \cup Chk(noEcho, "NoEcho") \cup
             Chk(minSound, "MinVVSound") \cup Chk(minNotHeldBack, "MinVVNotHeldBack") \cup Chk(gcSafe, "GCSafe") \cup
             \* C11/C06: every answered request of a GC-participating client rewrites (or, when it
             \* leaves, deletes) its version-vector row - the ghost `row` follows the logged write, so
             \* a request that skips the write must not go unnoticed
             Chk((known /\ ~s.gcoff[k]) => e.vvset, "RowWritten") \cup
             Chk(~stale => res.cp[1] <= Len(log2), "ResponseCheckpointBound") \cup
             Chk((known /\ e.rpc = "sync" /\ ~e.pushonly /\ ~e.concurrent) => res.cp[1] >= s.lastResCp[k][1], "CheckpointMonotone") \cup
             Chk((e.nopresdoc \/ e.nopres) => (\A i \in DOMAIN res.pulled : res.pulled[i].pres = "none"), "NoPresenceInResponses") \cup
             Chk((e.nopresdoc \/ e.nopres) /\ res.snap => res.snappres = "", "NoPresenceInSnapshots") \cup
             Chk(stale => e.status # "attached", "StaleRefused") \cup
             Chk(s.removed[d] => res.removed, "RemovedIsSticky")
      \* -- new server-side ghost state
      att2 == IF ~known \/ ~e.ok THEN s.att
              ELSE Upd(s.att, k, e.status)
      gc2 == IF ~known \/ ~e.ok THEN s.gcoff ELSE Upd(s.gcoff, k, e.gcoff)
      respRec == [ok |-> e.ok, err |-> e.err, cp |-> Cp(res.cp), pulled |-> [i \in DOMAIN res.pulled |-> res.pulled[i].s],
                  snap |-> res.snap, removed |-> res.removed, epoch |-> e.epoch, status |-> e.status,
                  hasvv |-> res.hasvv, vv |-> res.vv, rid |-> e.rid]
      s2 == [s EXCEPT !.att = att2, !.gcoff = gc2,
                      !.resp = IF known THEN Upd(@, k, Append(@[k], respRec)) ELSE @,
                      !.lastResCp = IF known /\ e.ok /\ e.status = "attached" /\ ~e.pushonly THEN Upd(@, k, res.cp) ELSE @]
  IN R(s2, vRes)

PPStep(s, e) ==
  LET a == PPCStep(s, e)
      b == VVStep(a.st, e)
      c == PPRStep(b.st, e)
  IN R(c.st, a.v \cup b.v \cup c.v)

\* ---- client side: the SDK call returned; adopt the replica ------------
RepOf(e, old, k, s) ==
  LET r == e.rep
      sess == r.sess
      own == {<<k[1], sess, i>> : i \in 1..(r.cp[2] + Len(r.pend))}
  IN [has |-> TRUE, sess |-> sess, st |-> r.st, content |-> r.content, root |-> r.root,
      cp |-> Cp(r.cp), vv |-> r.vv, lam |-> r.lam, pend |-> r.pend, pres |-> r.pres,
      garbage |-> r.garbage, undo |-> r.undo, redo |-> r.redo,
      applied |-> (IF old.has /\ old.sess = sess THEN old.applied ELSE {}) \cup own,
      epoch |-> IF old.has /\ old.sess = sess THEN old.epoch ELSE s.epoch[k[2]],
      seenlam |-> IF old.has /\ old.sess = sess THEN old.seenlam ELSE 0,
      seenvv |-> IF old.has /\ old.sess = sess THEN old.seenvv ELSE <<>>,
      undon |-> r.undon, ncontent |-> r.ncontent,
      \* C14 ghost: contents to return to by undo / redo (valid while no remote operation interferes)
      past |-> IF old.has /\ old.sess = sess THEN old.past ELSE <<>>,
      future |-> IF old.has /\ old.sess = sess THEN old.future ELSE <<>>]

\* apply one response to the ghost applied-set of replica rp (doc d)
ApplyResp(s, d, rp, rs) ==
  IF ~rs.ok \/ rs.epoch # rp.epoch THEN rp
  ELSE IF rs.snap
       THEN LET n == IF rs.cp.s <= Len(s.log[d]) THEN rs.cp.s ELSE Len(s.log[d])
                rows == {s.log[d][i] : i \in 1..n}
            IN [rp EXCEPT !.applied = @ \cup {r.id : r \in rows},
                          !.seenlam = Max2(@, VVMaxLamport(rs.vv)),
                          !.seenvv = VVMax(@, rs.vv)]
       ELSE LET rows == {s.log[d][i] : i \in {j \in Range(rs.pulled) : j >= 1 /\ j <= Len(s.log[d])}}
                clk == {r \in rows : HasClk(r)}
                lams == {r.lam : r \in clk} \cup {rp.seenlam}
                newlam == CHOOSE m \in lams : \A x \in lams : x <= m
                RECURSIVE Fold(_, _)
                Fold(S, acc) == IF S = {} THEN acc ELSE LET x == CHOOSE y \in S : TRUE IN Fold(S \ {x}, VVMax(acc, x.vv))
            IN [rp EXCEPT !.applied = @ \cup {r.id : r \in rows},
                          !.seenlam = newlam, !.seenvv = Fold(clk, @)]

RECURSIVE ApplyAll(_, _, _, _)
ApplyAll(s, d, rp, rss) == IF rss = <<>> THEN rp ELSE ApplyAll(s, d, ApplyResp(s, d, rp, Head(rss)), Tail(rss))

ExpectedFailure(s, e, k, rss) ==
  \* C05: an injected storage fault / lost response that fired
  \/ (Has(e, "fault") /\ e.fault # "" /\ e.fired)
  \* a stale (pre-compaction) replica is told to re-attach: ErrEpochMismatch
  \/ (\E i \in DOMAIN rss : ~rss[i].ok /\ s.rep[k].has /\ s.rep[k].epoch # s.epoch[k[2]])
  \/ (s.rep[k].has /\ s.rep[k].epoch # s.epoch[k[2]] /\ e.ev \in {"Sync"})

ClientStep(s, e) ==
  LET k == <<e.c, e.d>>
      d == e.d
      \* a retried request: the client applies the response of the request it names
      rss == IF Has(e, "rid") /\ e.rid # "" THEN SelectSeq(s.resp[k], LAMBDA x : x.rid = e.rid) ELSE s.resp[k]
      old == IF s.rep[k].has THEN s.rep[k] ELSE NoRep
      hasrep == "rep" \in DOMAIN e
      base == IF hasrep THEN RepOf(e, old, k, s) ELSE old
      \* duplicates: a change pull delivering a row the session already has
      dup == \E i \in DOMAIN rss : rss[i].ok /\ ~rss[i].snap /\ old.has /\ base.has /\ old.sess = base.sess /\
               \E j \in Range(rss[i].pulled) : j >= 1 /\ j <= Len(s.log[d]) /\ s.log[d][j].id \in old.applied
                                               /\ s.log[d][j].id[1] # e.c
      new0 == IF hasrep /\ e.ok THEN ApplyAll(s, d, base, rss) ELSE base
      \* a snapshot or a remote operation may move what the stacked reverse operations refer to:
      \* exact restoration is promised only without concurrent remote changes (C14)
      gotRemote == \E i \in DOMAIN rss : rss[i].ok /\ (rss[i].snap \/ \E j \in Range(rss[i].pulled) :
                       j >= 1 /\ j <= Len(s.log[d]) /\ s.log[d][j].nops > 0)
      new == IF new0.has /\ gotRemote THEN [new0 EXCEPT !.past = <<>>, !.future = <<>>] ELSE new0
      expfail == ExpectedFailure(s, e, k, rss)
      v == Chk(e.ok \/ expfail, "SyncNeverFails") \cup
           Chk(~dup, "DeliveredOnce") \cup
           Chk((e.ok /\ hasrep /\ rss # <<>> /\ rss[Len(rss)].ok /\ ~rss[Len(rss)].snap /\ e.ev = "Sync")
                  => new.cp.s = Max2(old.cp.s, rss[Len(rss)].cp.s), "CheckpointAdopted") \cup
           Chk((e.ok /\ e.ev \in {"Detach"}) => s.att[k] \in {"detached", "removed"}, "DetachTakesEffect") \cup
           Chk((e.ok /\ e.ev \in {"Remove"}) => s.att[k] = "removed" /\ s.removed[d], "RemoveTakesEffect")
      s2 == [s EXCEPT !.rep = Upd(@, k, new),
                      !.resp = Upd(@, k, IF Has(e, "rid") /\ e.rid # "" THEN SelectSeq(@[k], LAMBDA x : x.rid # e.rid) ELSE <<>>)]
  IN R(s2, v)

\* ---- C07: sequential reference semantics of the index-based editing API --
\* (arrays as sequences, text as a sequence of UTF-16 code units, objects as
\* finite maps key -> marshalled value, 32-bit counters with two's-complement
\* wrap-around, trees in the structure-preserving domain doc > p* > text as a
\* sequence of paragraphs, each a sequence of code units)
Ins(q, i, x) == SubSeq(q, 1, i) \o x \o SubSeq(q, i + 1, Len(q))        \* insert the sequence x after the first i items
Del(q, i, j) == SubSeq(q, 1, i) \o SubSeq(q, j + 1, Len(q))             \* delete items i+1 .. j
\* 32-bit two's-complement addition, written so that no intermediate value
\* leaves TLC's own 32-bit integers
MinI32 == (-2147483647) - 1
AddWrap32(p, v) ==
  IF v >= 0 /\ p > 2147483647 - v THEN MinI32 + ((p - 2147483647) + (v - 1))
  ELSE IF v < 0 /\ p < MinI32 - v THEN 2147483647 - (((MinI32 - p) + (0 - v)) - 1)
  ELSE p + v

\* moving the item at (0-based) index t to right after the item at index p
MoveAfterIdx(q, p, t) ==
  LET x == q[t + 1]
      rest == Del(q, t, t + 1)
      p2 == IF p > t THEN p - 1 ELSE p
  IN Ins(rest, p2 + 1, <<x>>)

SeqApply(k, a, pre) ==
  CASE k = "arr.add" -> Append(pre, a.val)
    [] k = "arr.ins" -> Ins(pre, a.idx + 1, <<a.val>>)
    [] k = "arr.del" -> Del(pre, a.idx, a.idx + 1)
    [] k = "arr.mov" -> MoveAfterIdx(pre, a.prev, a.target)
    [] k = "arr.movfront" -> <<pre[a.target + 1]>> \o Del(pre, a.target, a.target + 1)
    [] k = "arr.movlast" -> Del(pre, a.target, a.target + 1) \o <<pre[a.target + 1]>>
    [] k = "arr.set" -> [pre EXCEPT ![a.idx + 1] = a.val]
    [] k = "txt.edit" -> Ins(Del(pre, a.from, a.to), a.from, a.units)
    [] k = "txt.style" -> pre
    [] k = "cnt.inc" -> AddWrap32(pre, a.val)
    [] k = "obj.set" -> Upd(pre, a.key, ToString(a.val))
    [] k = "obj.sets" -> Upd(pre, a.key, "\"" \o a.val \o "\"")
    [] k = "obj.del" -> [x \in (DOMAIN pre) \ {a.key} |-> pre[x]]
    [] k = "tree.style" -> pre
    [] k = "tree.rmstyle" -> pre
    [] k = "tree.edit" ->
         (CASE a.mode = "instext" -> [pre EXCEPT ![a.path[1] + 1] = Ins(@, a.path[2], a.units)]
            [] a.mode = "deltext" -> [pre EXCEPT ![a.path[1] + 1] = Del(@, a.path[2], a.path[2] + 1)]
            [] a.mode = "reptext" -> [pre EXCEPT ![a.path[1] + 1] = Ins(Del(@, a.path[2], a.path[2] + 1), a.path[2], a.units)]
            [] a.mode = "inselem" -> Ins(pre, a.path[1], <<a.units>>)
            [] a.mode = "delelem" -> Del(pre, a.path[1], a.path[1] + 1))

\* operations whose effect on the touched key is only checked for presence
Approx(k) == k \in {"obj.setobj", "obj.setin"}

LocalSemantics(e) ==
  IF ~Has(e, "sem") \/ e.outcome # "ok" THEN TRUE
  ELSE LET m == e.sem k == e.op.k IN
       IF Approx(k)
       THEN \A x \in (DOMAIN m.pre) \ {e.args.key} : x \in DOMAIN m.post /\ m.post[x] = m.pre[x]
       ELSE m.post = SeqApply(k, e.args, m.pre)

\* the index-based view (Len/Get/String/ToXML through the order-statistic trees)
\* agrees with the document's own iteration (what Marshal prints)
ViewConsistent(e) == (Has(e, "sem") /\ e.outcome \in {"ok", "skip"}) => e.sem.post = e.sem.doc

\* a failed or skipped update leaves the view alone
FailedKeepsView(e) == (Has(e, "sem") /\ e.outcome \in {"err", "panic"}) => e.sem.post = e.sem.pre

\* ---- Edit / Undo / Redo ------------------------------------------------
EditStep(s, e) ==
  LET k == <<e.c, e.d>>
      old == s.rep[k]
      new == RepOf(e, old, k, s)
      failed == e.ev = "Edit" /\ e.outcome \in {"err", "panic"}
      atomic == failed => (old.has /\ new.content = old.content /\ new.pend = old.pend /\ new.cp = old.cp
                           /\ new.vv = old.vv /\ new.undo = old.undo /\ new.redo = old.redo /\ new.pres = old.pres)
      \* C06 Causal: a change made now is newer than everything its author has applied
      made == old.has /\ Len(new.pend) > Len(old.pend)
      last == new.pend[Len(new.pend)]
      causal == (made /\ last[2] # 0) =>
                   /\ last[2] > old.seenlam
                   /\ last[2] = new.lam
                   /\ (s.gcoff[k] \/ VVLeq(old.seenvv, new.vv))
                   /\ VVGet(new.vv, e.c) = last[2]
      new2 == IF made /\ last[2] # 0
              THEN [new EXCEPT !.seenlam = Max2(@, last[2]), !.seenvv = VVMax(@, new.vv)]
              ELSE new
      \* C14: undo returns to the content before the edit, redo to the content after it
      pushed == e.ev = "Edit" /\ e.ok /\ old.has /\ new.undon = old.undon + 1
      undone == e.ev = "Undo" /\ e.ok /\ old.has /\ new.undon = old.undon - 1 /\ old.past # <<>>
      \* (a redo that the ghost tracks must restore even when it pushes nothing back on the undo stack:
      \* a reverse operation that silently skips is exactly the failure)
      redone == e.ev = "Redo" /\ e.ok /\ old.has /\ old.redo /\ old.future # <<>>
      undoExact == undone => new.ncontent = old.past[Len(old.past)]
      redoExact == redone => new.ncontent = old.future[Len(old.future)]
      \* kinds whose restoration C14 calls approximate: the ghost does not reach across them
      barrier == pushed /\ e.op.k \in {"txt.style", "tree.style", "tree.rmstyle", "arr.mov", "arr.movfront", "arr.movlast", "arr.set"}
      past2 == IF barrier THEN <<>>
               ELSE IF pushed THEN Append(old.past, old.ncontent)
               ELSE IF undone THEN SubSeq(old.past, 1, Len(old.past) - 1)
               ELSE IF redone THEN (IF new.undon = old.undon + 1 THEN Append(old.past, old.ncontent) ELSE <<>>)
               ELSE IF old.has /\ e.ev \in {"Undo", "Redo"} /\ new.undon # old.undon THEN <<>>
               ELSE IF old.has THEN old.past ELSE <<>>
      future2 == IF pushed THEN (IF new.redo THEN old.future ELSE <<>>)
                 ELSE IF undone THEN (IF new.redo THEN Append(old.future, old.ncontent) ELSE <<>>)
                 ELSE IF redone THEN SubSeq(old.future, 1, Len(old.future) - 1)
                 \* an undo/redo of an entry the ghost does not track (the set-up operations of
                 \* the behaviour, which may be styles) invalidates what redo is expected to bring back
                 ELSE IF old.has /\ e.ev \in {"Undo", "Redo"} /\ new.undon # old.undon THEN <<>>
                 ELSE IF old.has /\ new.redo THEN old.future ELSE <<>>
      v == Chk(atomic, "UpdateAtomic") \cup Chk(causal, "Causal") \cup
           Chk(undoExact, "UndoExact") \cup Chk(redoExact, "RedoExact") \cup
           (IF e.ev = "Edit" THEN Chk(LocalSemantics(e), "LocalSemantics") \cup Chk(ViewConsistent(e), "ViewConsistent")
                                  \cup Chk(FailedKeepsView(e), "FailedKeepsView") ELSE {}) \cup
           Chk(e.ev = "Edit" => (e.ok \/ e.fail # ""), "EditNeverFails") \cup
           Chk(e.ev \in {"Undo", "Redo"} => e.ok, "UndoRedoNeverFails") \cup
           \* C15: an undo/redo that changed what the document shows is a change the peers must get
           Chk((e.ev \in {"Undo", "Redo"} /\ e.ok /\ old.has /\ new.content # old.content) => Len(new.pend) > Len(old.pend),
               "UndoQueuesChange")
  IN R([s EXCEPT !.rep = Upd(@, k, [new2 EXCEPT !.past = past2, !.future = future2])], v)

\* ---- Ref: reference replica advances by one row ------------------------
RefStep(s, e) ==
  LET d == e.d
      v == Chk(e.ok, "LogReplayable") \cup Chk(e.s = Len(s.ref[d]) + 1, "RefDense") \cup
           \* C09: the row decoded from storage/wire behaves like the change object its author made
           Chk((e.ok /\ Has(e, "dok")) => (e.dok /\ e.dcontent = e.content /\ e.dgarbage = e.garbage), "WireTransparent") \cup
           \* C09: snapshot bytes round trip keeps content and garbage
           Chk((e.ok /\ Has(e, "snap_ok")) => (e.snap_ok /\ e.snap_content = e.content /\ e.snap_garbage = e.garbage), "SnapshotBytesTransparent") \cup
           \* C18: YSON export -> text -> parse -> import -> export is the identity
           Chk((e.ok /\ Has(e, "yson_ok")) => (e.yson_ok /\ e.yson_before = e.yson_after), "YsonRoundTrip") \cup
           \* C10: after a compaction the rebuilt log yields the content from before
           Chk((s.pre[d].has /\ e.s = Len(s.log[d])) => e.content = s.pre[d].content, "CompactionKeepsContent") \cup
           \* C18: the row a restore appended brings the reference back to the content at revision creation
           Chk((e.ok /\ s.restoreAt[d] = e.s /\ s.rev[d] >= 1 /\ s.rev[d] <= Len(s.ref[d]))
                 => e.ncontent = s.ref[d][s.rev[d]].ncontent, "RestoreReturnsContent")
      s2 == [s EXCEPT !.ref = Upd(@, d, Append(@[d], [content |-> e.content, ncontent |-> e.ncontent, pres |-> e.pres])),
                      !.pre = IF e.s = Len(s.log[d]) THEN Upd(@, d, [has |-> FALSE, content |-> ""]) ELSE @]
  IN R(s2, v)

\* ---- Build: the server's own rebuild equals the reference --------------
BuildStep(s, e) ==
  LET d == e.d
      v == Chk(e.ok, "BuildNeverFails") \cup
           Chk((e.ok /\ e.s >= 1 /\ e.s <= Len(s.ref[d]) /\ e.epoch = s.epoch[d]) => e.content = s.ref[d][e.s].content, "BuildEquiv")
  IN R(s, v)

\* ---- Compact -----------------------------------------------------------
CompactStep(s, e) ==
  LET d == e.d
      attachedSomeone == \E k \in DOMAIN s.att : k[2] = d /\ s.att[k] \in {"attached", "attaching"}
      mkrow(r) == [id |-> <<r.actor, e.epoch, r.cs>>, s |-> r.s, actor |-> r.actor, cs |-> r.cs,
                   lam |-> r.lam, vv |-> r.vv, nops |-> r.nops, pres |-> r.pres, stripped |-> FALSE]
      newlog == [i \in DOMAIN e.rows |-> mkrow(e.rows[i])]
      v == Chk((attachedSomeone /\ ~e.force) => ~e.ok, "CompactRefusedWhileAttached") \cup
           Chk(e.ok => e.epoch > s.epoch[d], "EpochStrictlyIncreases") \cup
           Chk(~e.ok => e.epoch = s.epoch[d], "FailedCompactKeepsEpoch") \cup
           Chk((~attachedSomeone \/ e.force) => e.ok, "CompactNeverFailsOnContent") \cup
           Chk(e.ok => Len(newlog) <= 1, "CompactedLogSize")
      headc == IF Len(s.ref[d]) >= 1 THEN s.ref[d][Len(s.ref[d])].content ELSE "{}"
      s2 == IF e.ok
            THEN [s EXCEPT !.log = Upd(@, d, newlog), !.epoch = Upd(@, d, e.epoch), !.ref = Upd(@, d, <<>>),
                           !.row = [x \in DOMAIN @ |-> IF x[2] = d THEN [has |-> FALSE, vv |-> <<>>] ELSE @[x]],
                           \* (inside a gated concurrent phase the reference is not fed, so the
                           \* content just before the compaction is not known: C10 checks it sequentially)
                           !.pre = Upd(@, d, [has |-> Len(newlog) >= 1 /\ ~Has(e, "concurrent"), content |-> headc])]
            ELSE s
  IN R(s2, v)

DeactivateStep(s, e) ==
  LET c == e.c
      ks == {k \in DOMAIN s.att : k[1] = c}
      v == Chk(e.ok => \A k \in ks : s.att[k] \notin {"attached", "attaching"}, "DeactivateDetachesAll") \cup
           Chk(e.ok \/ Has(e, "concurrent"), "DeactivateNeverFails")
  IN R([s EXCEPT !.active = IF e.ok THEN Upd(@, c, FALSE) ELSE @,
                 !.resp = [k \in DOMAIN @ |-> IF k[1] = c THEN <<>> ELSE @[k]]], v)

ActivateStep(s, e) == R([s EXCEPT !.active = IF e.ok THEN Upd(@, e.c, TRUE) ELSE @], {})

\* ---- concurrent traces: locks, dropped responses, end of a gated phase -----
LockRank(lk) == CASE lk = "doc" -> 1 [] lk = "pull" -> 2 [] lk = "attach" -> 3 [] lk = "push" -> 4 [] OTHER -> 9
Held(s, g) == IF g \in DOMAIN s.held THEN s.held[g] ELSE {}
LStep(s, e) ==
  LET g == e.gid
      h == Held(s, g)
      \* C16: documented acquisition order doc < pull < attachment < push
      v == Chk((e.op = "wait" /\ e.lock \in {"doc", "pull", "attach", "push"})
                  => \A x \in h : LockRank(x[1]) < LockRank(e.lock), "LockOrder")
      h2 == CASE e.op = "acquired" -> h \cup {<<e.lock, e.mode>>}
              [] e.op = "released" -> h \ {<<e.lock, e.mode>>}
              [] OTHER -> h
  IN R([s EXCEPT !.held = Upd(@, g, h2)], v)

DroppedStep(s, e) ==
  LET k == <<e.c, e.d>> IN
  R([s EXCEPT !.resp = Upd(@, k, SelectSeq(@[k], LAMBDA x : x.rid # e.rid))], {})

\* C16: every request of the phase returned (nothing is blocked for good)
PhaseStep(s, e) == R(s, Chk(e.blocked = <<>>, "Completion") \cup Chk(e.drift = <<>>, "ScheduleDrift"))

\* ---- revisions (C18): the content a restore writes is the content at revision creation ----
RevisionStep(s, e) ==
  R([s EXCEPT !.rev = Upd(@, e.d, IF e.ok THEN Len(s.log[e.d]) ELSE @[e.d])], Chk(e.ok, "RevisionNeverFails"))
\* (the restore's own PushPull came first: its row is the log head now)
RestoreStep(s, e) ==
  R([s EXCEPT !.restoreAt = Upd(@, e.d, IF e.ok THEN Len(s.log[e.d]) ELSE @[e.d])], Chk(e.ok, "RestoreNeverFails"))

Step(s, e) ==
  CASE e.ev = "Init" -> R(InitSt(e), {})
    [] e.ev = "Revision" -> RevisionStep(s, e)
    [] e.ev = "Restore" -> RestoreStep(s, e)
    [] e.ev = "PP" -> PPStep(s, e)
    [] e.ev = "PPC" -> LET r == PPCStep(s, e) IN
                       R(r.st, r.v \cup Chk(e.rows # <<>> => <<"push", "W">> \in Held(s, e.gid), "CreateUnderPushLock"))
    [] e.ev = "VV" -> VVStep(s, e)
    [] e.ev = "PPR" -> PPRStep(s, e)
    [] e.ev = "L" -> LStep(s, e)
    [] e.ev = "Dropped" -> DroppedStep(s, e)
    [] e.ev = "Phase" -> PhaseStep(s, e)
    [] e.ev \in {"Attach", "Sync", "Detach", "Remove"} -> ClientStep(s, e)
    [] e.ev \in {"Edit", "Undo", "Redo"} -> EditStep(s, e)
    [] e.ev = "Ref" -> RefStep(s, e)
    [] e.ev = "Build" -> BuildStep(s, e)
    [] e.ev = "Compact" -> CompactStep(s, e)
    [] e.ev = "Deactivate" -> DeactivateStep(s, e)
    [] e.ev = "Activate" -> ActivateStep(s, e)
    [] OTHER -> R(s, {})     \* Skip, Evict, End: stuttering on the abstract state

----------------------------------------------------------------------------
TraceInit == l = 1 /\ st = EmptySt /\ viol = {}

TraceNext ==
  /\ l <= Len(Trace)
  /\ LET e == Trace[l]
         r == Step(st, e)
         f == r.v \cup (IF e.ev \in {"Init", "End", "Skip"} THEN {} ELSE FailedState(r.st))
     IN /\ st' = r.st
        \* one record per (behaviour, invariant): the first line at which it fails
        /\ viol' = viol \cup {[tag |-> t, tid |-> r.st.tid, line |-> l] :
                                  t \in {x \in f : ~\E w \in viol : w.tag = x /\ w.tid = r.st.tid}}
  /\ l' = l + 1

TraceSpec == TraceInit /\ [][TraceNext]_vars

\* Acceptance: the whole trace was consumed (one state per line + the initial one).
TraceAccepted ==
  /\ TLCGet("stats").diameter - 1 = Len(Trace)
  /\ PrintT(<<"TRACE-ACCEPTED", Len(Trace)>>)

\* The collected violations are printed from the final state (a POSTCONDITION
\* cannot read variables); the formula itself is always TRUE.
Report == (l = Len(Trace) + 1) => PrintT(<<"VIOLS", ToJson(viol)>>)

NoViolation == viol = {}
=============================================================================
