-------------------------------- MODULE Yson --------------------------------
(***************************************************************************)
(* Property C18, literal half: the YSON values a user can create, as a     *)
(* small grammar. TLC enumerates every value of the grammar up to the      *)
(* bounds below (one root object per behaviour); the harness builds the    *)
(* value with the real yson types, exports it to text, imports the text    *)
(* again, and imports the value into an empty document and exports that;   *)
(* YsonTrace.tla compares the three structurally.                          *)
(*                                                                         *)
(* The string atoms are chosen against the parser: it is a preprocessor    *)
(* over the TEXT (constructor tokens and parentheses) in front of a JSON   *)
(* parser, so strings that look like syntax are the interesting ones.      *)
(***************************************************************************)
EXTENDS Naturals, Integers, Sequences, FiniteSets, TLC, Json

Strs == {"a", ")", "(", "Int(", "Text()", "Tree(", "q\"q", "b\\", "}", "{\"type\":\"Int\"}", ",", "BinData(\"", "é", "", " "}
Keys == {"k", "k)", "Int(", "q\"k"}
Ints == {0, -1, 7}

Str(s) == [t |-> "str", v |-> s]
Prims == {Str(s) : s \in Strs} \cup {[t |-> "int", v |-> i] : i \in Ints} \cup {[t |-> "long", v |-> i] : i \in Ints}
         \cup {[t |-> "bool", v |-> TRUE], [t |-> "bool", v |-> FALSE], [t |-> "null", v |-> 0]}

Attrs == {<<>>, <<<<"b", "1">>>>, <<<<"x)", "Int(">>>>}
TextNodes == {[val |-> s, at |-> a] : s \in {"a", ")", "Int(", "q\"q", "é"}, a \in Attrs}
Texts == {[t |-> "text", n |-> <<>>]} \cup {[t |-> "text", n |-> <<x>>] : x \in TextNodes}
         \cup {[t |-> "text", n |-> <<x, y>>] : x \in {[val |-> "a)", at |-> <<>>]}, y \in TextNodes}

TText(s) == [ty |-> "text", val |-> s, at |-> <<>>, ch |-> <<>>]
TElem(ty, at, ch) == [ty |-> ty, val |-> "", at |-> at, ch |-> ch]
Paras == {TElem("p", a, <<TText(s)>>) : a \in Attrs, s \in {"a", ")", "Tree("}} \cup {TElem("p", <<>>, <<>>)}
Trees == {[t |-> "tree", r |-> TElem("doc", <<>>, <<p>>)] : p \in Paras}
         \cup {[t |-> "tree", r |-> TElem("doc", <<>>, <<p, TElem("p", <<>>, <<TText("z")>>)>>)] : p \in Paras}

\* "dcnt": a dedup counter (HyperLogLog) that has counted v distinct actors - its registers are its state
Counters == {[t |-> "cnt", v |-> i] : i \in Ints} \cup {[t |-> "dcnt", v |-> i] : i \in {0, 1, 3}}

V0 == Prims \cup Texts \cup Trees \cup Counters

Obj1(k, v) == [t |-> "obj", m |-> <<<<k, v>>>>]
\* containers of depth 1 (a sample of the string-like atoms inside them keeps the set small)
Inner == {Str(")"), Str("Int("), Str("a"), [t |-> "int", v |-> 7], [t |-> "cnt", v |-> -1], [t |-> "dcnt", v |-> 3],
          [t |-> "text", n |-> <<[val |-> ")", at |-> <<>>]>>]}
V1 == V0 \cup {Obj1(k, v) : k \in Keys, v \in Inner} \cup {[t |-> "arr", e |-> <<>>]}
         \cup {[t |-> "arr", e |-> <<v>>] : v \in Inner} \cup {[t |-> "arr", e |-> <<v, w>>] : v \in {Str(")")}, w \in Inner}
         \cup {[t |-> "obj", m |-> <<>>]}

Roots == {Obj1(k, v) : k \in Keys, v \in V1}
         \cup {[t |-> "obj", m |-> <<<<"k", v>>, <<"z", w>>>>] : v \in {Str(")"), Str("Int(")}, w \in Inner}

VARIABLE v
Init == v \in Roots
Next == UNCHANGED v
Spec == Init /\ [][Next]_v
Emit == PrintT(<<"BEHAVIOUR", ToJson(v)>>)
=============================================================================
