----------------------------- MODULE YsonTrace -----------------------------
(* Validates what `yvh yson` recorded for every value of Yson.tla:          *)
(*   ExportNeverFails   Marshal of the value succeeds                       *)
(*   ParseBack          the exported text parses, and to an equal value     *)
(*   ImportExport       SetYSON of the value into an empty document         *)
(*                      succeeds and FromCRDT of the document is the value  *)
(* Values are compared structurally (the harness describes input, parsed    *)
(* and re-exported value with one canonical describer).                     *)
EXTENDS Integers, Sequences, FiniteSets, TLC, Json, IOUtils
Trace == ndJsonDeserialize(IOEnv.YTRACE)
VARIABLES l, bad
vars == <<l, bad>>
Check(e) ==
  (IF ~e.export_ok THEN {"ExportNeverFails"} ELSE {}) \cup
  (IF e.export_ok /\ (~e.parse_ok \/ e.out # e.inp) THEN {"ParseBack"} ELSE {}) \cup
  (IF ~e.import_ok \/ e.doc # e.inp THEN {"ImportExport"} ELSE {})
Init == l = 1 /\ bad = {}
Next == /\ l <= Len(Trace) /\ l' = l + 1
        /\ bad' = bad \cup {[tag |-> t, run |-> Trace[l].run, line |-> l] : t \in Check(Trace[l])}
Spec == Init /\ [][Next]_vars
TraceAccepted == TLCGet("stats").diameter - 1 = Len(Trace) /\ PrintT(<<"TRACE-ACCEPTED", Len(Trace)>>)
Report == (l = Len(Trace) + 1) => PrintT(<<"VIOLS", ToJson(bad)>>)
=============================================================================
